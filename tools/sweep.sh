#!/bin/bash
# Runs every claimed check's quick command on /repo as it is; prints a summary line per check.
cd "$(dirname "${BASH_SOURCE[0]}")/.."
for id in $(python3 -c "import json;print(' '.join(c['property_id'] for c in json.load(open('MANIFEST.json'))['checks']))"); do
  s=$(date +%s)
  out=$(./check $id ${1:-quick} 2>&1); rc=$?
  e=$(( $(date +%s) - s ))
  echo "$id rc=$rc ${e}s $(echo "$out" | grep -c '^VIOLATION') violations; $(echo "$out" | grep -E 'INCONCLUSIVE|BUILD-FAILED' | head -2 | tr '\n' ' ')"
done
