#!/usr/bin/env python3
"""regress-seeded.py [jobs] [name-substring]: re-runs every seeded change against the current machinery.

Each job gets its own scratch worktree of /repo and its own scratch copy of /verif under /tmp/reg (removed
afterwards), applies seeded/<name>/patch.diff there and runs the quick checks named in meta.json's caught_by with
VERIF_REPO pointing at the worktree.  /repo and /verif themselves are not touched.  Prints one line per (change,
check) and a summary; exit 1 if a change that should be caught is not."""
import json, os, re, subprocess, sys, shutil, concurrent.futures as cf

jobs = int(sys.argv[1]) if len(sys.argv) > 1 else 4
only = sys.argv[2] if len(sys.argv) > 2 else ""
ROOT = "/verif"
SEEDED = os.environ.get("SEEDED_DIR", ROOT + "/seeded")  # candidates not yet saved can be staged elsewhere
names = sorted(n for n in os.listdir(SEEDED) if os.path.exists(f"{SEEDED}/{n}/patch.diff") and only in n)
env = dict(os.environ, GOFLAGS="-mod=mod", GOPROXY="off", GOSUMDB="off", GOTOOLCHAIN="local")

def run(name):
    meta = json.load(open(f"{SEEDED}/{name}/meta.json"))
    checks = sorted(set(re.findall(r"(C\d\d) quick", meta.get("caught_by", "")))) or [name[:3]]
    neutral = "status_after_fix_c2c62b7" in meta
    base = f"/tmp/reg/{name}"
    shutil.rmtree(base, ignore_errors=True)
    os.makedirs(base)
    wt, vf = base + "/repo", base + "/verif"
    out = []
    try:
        subprocess.run(["git", "-C", "/repo", "worktree", "add", "-q", "--detach", wt, "HEAD"], check=True, capture_output=True)
        subprocess.run(["rsync", "-a", "--exclude", ".work", "--exclude", ".bin", "--exclude", ".git", "--exclude", "seeded", "--exclude", "replays", ROOT + "/", vf + "/"], check=True)
        ap = subprocess.run(["git", "-C", wt, "apply", "--3way", f"{SEEDED}/{name}/patch.diff"], capture_output=True, text=True)
        if ap.returncode != 0:
            ap = subprocess.run(["git", "-C", wt, "apply", f"{SEEDED}/{name}/patch.diff"], capture_output=True, text=True)
        if ap.returncode != 0:
            return [(name, "-", "APPLY-FAILED", ap.stderr.strip()[:200])]
        for c in checks:
            p = subprocess.run([vf + "/check", c, "quick"], capture_output=True, text=True, env=dict(env, VERIF_REPO=wt), timeout=3000)
            nviol = len(re.findall(r"^VIOLATION ", p.stdout, re.M))
            detail = (re.findall(r"detail: (.*)", p.stdout) or [""])[0][:150]
            verdict = "caught" if (p.returncode == 1 and nviol > 0) else ("silent" if p.returncode == 0 else f"rc={p.returncode}")
            out.append((name, c, verdict, detail))
    except Exception as e:
        out.append((name, "-", "ERROR", str(e)[:200]))
    finally:
        subprocess.run(["git", "-C", "/repo", "worktree", "remove", "--force", wt], capture_output=True)
        shutil.rmtree(base, ignore_errors=True)
    return [(n, c, v + (" (expected: neutralised by the recovery fix)" if neutral and v == "silent" else ""), d) for n, c, v, d in out]

bad = 0
with cf.ThreadPoolExecutor(jobs) as ex:
    for res in ex.map(run, names):
        ok = any(v.startswith("caught") for _, _, v, _ in res) or all("neutralised" in v for _, _, v, _ in res)
        if not ok:
            bad += 1
        for n, c, v, d in res:
            print(f"{'OK  ' if ok else 'MISS'} {n} vs {c}: {v}; {d}", flush=True)
subprocess.run(["git", "-C", "/repo", "worktree", "prune"])
print(f"changes: {len(names)}  not caught: {bad}")
sys.exit(1 if bad else 0)
