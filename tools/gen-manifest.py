#!/usr/bin/env python3
"""Generates /verif/MANIFEST.json from the table below (single source of truth for what is claimed)."""
import json, subprocess

HOOK_COMMITS = ["4ce865f"]

# id -> (level category, technique, level text, level note, design ref)
CHECKS = {
 "C01": ("exploration",
   "runtime monitor: slashability oracle over released signatures of seeded hostile histories (+ record-before-sign assertion at the account boundary)",
   "Every signature released by the real signer stack over tens of thousands of generated requests (single/batch, by name/by key, duplicate keys, epochs incl. >= 2^63, restarts) is verified cryptographically, attributed to (key, data) and compared pairwise with all earlier releases for that key using the consensus-spec double-vote/surround predicates. Held on the histories explored; not a proof for all histories.",
   "Trusted: the harness's SSZ/signing-root code (cross-checked by verifying Dirk's own signatures), herumi BLS verification, the synthetic account/fetcher standing in for wallet files.",
   "5/C01"),
 "C02": ("exploration",
   "runtime monitor: double-proposal oracle + strict slot monotonicity over released signatures of seeded hostile histories",
   "Every released proposal signature over generated histories (by name/by key, slots incl. >= 2^63, restarts, service and handler boundary) is verified, then checked against all earlier releases for that key (same slot, different header) and against the strictly-increasing-slot clause. Held on the histories explored.",
   "Trusted: harness SSZ roots, herumi BLS verification, synthetic accounts.",
   "5/C02"),
}

NOT_YET = {
}

def main():
    props = [json.loads(l) for l in open('/verif/properties.jsonl')]
    checks = []
    na = []
    for p in props:
        pid = p['id']
        if pid in CHECKS:
            cat, tech, text, note, ref = CHECKS[pid]
            checks.append({
                "property_id": pid,
                "quick_cmd": f"./check {pid} quick",
                "thorough_cmd": f"./check {pid} thorough",
                "evidence_file": f"/verif/evidence/{pid}.json",
                "replay_cmd_template": f"./check {pid} --replay {{path}}",
                "engine": "vh",
                "level_claimed": {"category": cat, "text": text, "design_ref": "DESIGN.md section " + ref},
                "level_note": note,
                "technique": tech,
            })
        else:
            na.append({"property_id": pid, "reason": NOT_YET.get(pid, "check not built yet in this revision of /verif (planned in DESIGN.md section 5); not claimed")})
    m = {
        "version": 1,
        "setup_cmd": "./setup.sh",
        "hooks": {
            "guard": "verif",
            "enable": "go build -tags verif (the harness module replaces github.com/attestantio/dirk with /repo, so every check compiles /repo's working tree with the tag on)",
            "baseline_off_cmd": "./tools/baseline-off.sh",
            "source_commits": HOOK_COMMITS,
            "add_only": True,
        },
        "engines": [
            {"name": "vh", "path": "/verif/harness", "serves_properties": sorted(CHECKS),
             "kind_free_text": "Go harness: real Dirk services/binary driven by seeded hostile workloads under monitors (slashability oracle, porcupine histories, wait-for graph, fault injectors, race detector, strace)"},
        ],
        "checks": checks,
        "not_applicable": na,
        "notes": "Technique family: runtime monitoring and sanitizers. VERIF_SEED selects the PRNG seed (default 1). Exit 2 + INCONCLUSIVE line means the run could not decide (never folded into held/violated). known_findings.json lists repaired defects (fixed entries suppress nothing).",
    }
    json.dump(m, open('/verif/MANIFEST.json', 'w'), indent=1)
    print("claimed:", sorted(CHECKS), "not claimed:", [x['property_id'] for x in na])

main()
