#!/usr/bin/env python3
"""Generates /verif/MANIFEST.json from the table below (single source of truth for what is claimed)."""
import json, subprocess

HOOK_COMMITS = ["4ce865f"]

# id -> (level category, technique, level text, level note, design ref)
CHECKS = {
 "C01": ("exploration",
   "runtime monitor: slashability oracle over released signatures of seeded hostile histories (+ record-before-sign assertion at the account boundary)",
   "Every signature released by the real signer stack over tens of thousands of generated requests (single/batch, by name/by key/by over-long key, duplicate keys, epochs incl. >= 2^63, restarts, GOMAXPROCS cycled 1..61 because batches are partitioned over workers) is verified cryptographically, attributed to (key, data) and compared pairwise with all earlier releases for that key using the consensus-spec double-vote/surround predicates. The histories also ask the generic endpoints (single and multisign, slashable entries hidden among harmless ones) to sign the roots of conflicting messages under the slashable domain; any signature that comes back joins the released set. Batches of 1025 and 2049 entries (thorough: up to 3100) are sent advancing, conflicting and conflicting after a restart. A wire slice repeats the workload over TLS/gRPC against the real daemon with SIGKILL restarts. Held on the histories explored; not a proof for all histories.",
   "Trusted: the harness's SSZ/signing-root code (cross-checked by verifying Dirk's own signatures), herumi BLS verification, the synthetic account/fetcher standing in for wallet files.",
   "5/C01"),
 "C02": ("exploration",
   "runtime monitor: double-proposal oracle + strict slot monotonicity over released signatures of seeded hostile histories",
   "Every released proposal signature over generated histories (by name/by key/by over-long key, slots incl. >= 2^63, restarts, service and handler boundary, GOMAXPROCS cycled) is verified; a wire slice repeats it against the real daemon, then checked against all earlier releases for that key (same slot, different header) and against the strictly-increasing-slot clause. Generic-endpoint side-channel steps as in C01. Held on the histories explored.",
   "Trusted: harness SSZ roots, herumi BLS verification, synthetic accounts.",
   "5/C02"),
 "C04": ("exploration",
   "runtime monitor: porcupine linearizability check of concurrent histories recorded at the signer boundary against Dirk's learned sequential semantics; slashability oracle; race detector; hook-steered overlaps",
   "Short, heavily contended concurrent histories (single and batch requests over 3 shared keys) are recorded at the signer.Service boundary with call/return stamps and, together with a final state read, checked by porcupine against an unpartitioned multi-key model whose step function is the real rules' single-threaded behaviour. A verifhook handler parks requests between their read and write while a rival is in flight so that broken locking becomes an overlap. An independent-clients phase runs 12 clients side by side, each sequential on two private keys and judged against the sequential specification, so that state shared below the per-key locks becomes visible; several clients send batches over the same 130..600 keys in different orders, and the per-key winners must all be one client. A FAILED/UNKNOWN answer to a request that met no fault and was not abandoned is judged as a refusal that some order must explain; the single-threaded reference runs and every phase have watchdogs; background traffic for ever-new keys passes through the same ruler and locker throughout. Some requests are abandoned by their client (context cancelled) exactly between their read and their write; a FAILED/UNKNOWN answer is modelled as an indeterminate operation that stays open (nondeterministic porcupine model). A wire slice records histories over TLS/gRPC against the real daemon and takes the final reads from its database after it stops. The same workload runs under the Go race detector. Held on the interleavings observed (thousands of overlapping same-key pairs per run), not on all schedules.",
   "Trusted: porcupine v1.3.0; the learned table (real code run sequentially); monotonic clock stamps taken outside the call.",
   "5/C04"),
 "C05": ("exploration",
   "runtime monitor: domain-type / admin-IP oracle over all five signing endpoints at service and handler boundaries",
   "Thousands of requests covering endpoint x domain-type class (incl. look-alikes and lengths != 32 over the wire) x admin-IP list x source address class x batch position; a wire slice drives the real daemon with server.rules.admin-ips set (two lists: without and with the daemon's own listening address) while the client binds different loopback source addresses (real SourceIP interceptor); multisign batches repeat the same data under several domains; 64-entry multisign batches alternate harmless and restricted domains over many workers; generic requests with data/domain lengths other than 32/32 are built so that their concatenation reads as (root, restricted domain); the monitor asserts that generic/multi never return a signature under attester/proposer types (nor one that verifies under them or under the restricted domain another entry of the request carried), exits only from listed addresses, and that the protected endpoints refuse foreign types without touching stored state.",
   "Trusted: harness signing-root code; the IP in the credentials stands in for the SourceIP interceptor at the in-process boundary.",
   "5/C05"),
 "C08": ("exploration",
   "runtime monitor: independent BLS verification of every returned signature over harness-computed signing roots, across batch sizes x GOMAXPROCS; race detector on batch paths",
   "Every signature returned for well-formed random requests (single and batches of 24 sizes from 1 to 511, GOMAXPROCS 1..61, service and handler boundary, by name/key/over-long key) is verified with herumi directly under the addressed account's key over a signing root computed by the harness's own SSZ code, and must not verify under a neighbouring account of the batch; response lengths must equal request lengths; generic roots are also handed over as sub-slices of one buffer; a slice on real wallets behind the real fetcher uses account names that contain the path separator next to accounts named after their prefixes; multisign batches repeat data across entries under different domains; batches also carry marker entries (including entries that cannot be hashed) (attestations no rule can approve) whose positions must keep their own negative verdict. Batch paths also run under the race detector.",
   "Trusted: harness SSZ code, herumi VerifyByte.",
   "5/C08"),
 "C09": ("exploration",
   "runtime monitor: sequential watermark specification (advancing => signed), twin-instance batch-vs-single differential, exhaustive util.Scatter partition grid, large batches over TLS/gRPC against the real daemon",
   "(1) In generated histories every request the specification calls advancing must be SUCCEEDED with a valid signature; (2) each batch of distinct keys is sent as a batch to one instance and entry-by-entry to a twin with the same history, verdict vectors must agree for sizes 1..400 and GOMAXPROCS 1..61; (3) util.Scatter is called for every n in 1..700 and 35 GOMAXPROCS values and its extents must partition [0,n) (that grid is exhaustive); (4) a real daemon holding 512 accounts is sent advancing batches of 1..512 entries by name and by key over TLS/gRPC and every entry must come back with a valid signature.",
   "Trusted: oracle.WM transcribes the statement; twin instances share nothing but the generator.",
   "5/C09"),
 "C03": ("fault_enumeration",
   "crash-point enumeration by self-SIGKILL at verifhook/Sign/Reply points + restart verification and conflicting-twin probes; random external kills; strace-based ordering check of value-log writes vs SIGN/REL events",
   "For each script every (crash point, hit number) reached by a dry run is enumerated: a child process kills itself there, a fresh process reopens the directory, checks every SIGN/REL line logged before the kill against the reopened store, probes a conflicting twin of every released duty and continues towards further kills. Random parent-side SIGKILLs cover instants between hooks; a wire variant SIGKILLs the real daemon at random instants while clients sign over TLS/gRPC and probes, after restart, a conflicting twin of every duty whose signature a client had received. One run under strace must show, for every SIGN/REL, an already completed write of exactly that record to a value log opened O_DSYNC (or fsync-ed). The in-process record-before-sign assertion also runs in C01/C02. Crash points are exhaustive at hook granularity for the scripts used, not for all histories.",
   "SIGKILL keeps the page cache, so durability itself is decided on the syscall stream (the kernel was asked for synchronous durability before release); real power loss is out of reach.",
   "5/C03"),
 "C06": ("fault_enumeration",
   "fault injection at every dependency seam (interposers + verifhook + undecodable records + OS-level write failure + closed store) with a per-position signature-iff-SUCCEEDED oracle",
   "Every single fault of 23 kinds is injected for each of the five request kinds, batch sizes {1,2,5,17} and every position, at service and handler boundary; then seeded multi-fault sequences, a handler-only matrix over a stub signer, a closed store, a store closed under load (child; signatures that left it are re-verified against the reopened store), a value log whose descriptor is made unwritable, one request parked between its read and its write while the store closes over a populated memtable (the reopened store must cover any signature that left), and arguments that cannot be decided handed to the real signer service and ruler (absent credentials, data, checkpoints, identifiers; unknown actions; data of the wrong type). The oracle: signature iff SUCCEEDED at every position, no signature where a fault fired, every signature returned beside a faulted entry verifies for its own entry, a failed batch write fails every entry, and an entry that was not signed never lowers its key's records (half of the cases start from keys with history; a panic in the serving goroutine is answered as the server answers it; a panic at the batch store is one of the faults). A fault whose injector never fired fails the run as inconclusive.",
   "Faults are those producible through exported interfaces, the storage hook and the OS; values outside the four rule results are not injected.",
   "5/C06"),
 "C07": ("exploration",
   "differential monitor: real static checker vs reference permission model over generated tables and engineered names; service-level carried-out => allowed oracle",
   "300+ generated permission tables x 400 queries each compare Check() with a literal transcription of the statement (ordered entries, whole-name case-insensitive matching incl. alternation/own anchors, account names containing the path separator, ordered operation lists). A sample of tables is mounted on real stacks and every operation through signer (by name, key, over-long key), lister, wallet manager, account manager (lock/unlock) and account creation (process service and handlers, real wallets) is judged: carried out only if the model allows it for the resolved account; refused requests leave slashing state and lock flags unchanged.",
   "The model uses Go regexp for matching (anchoring and grouping are its own).",
   "5/C07"),
 "C10": ("exploration",
   "runtime monitor over the real CLI: never-lowers / covers-maxima / boundary-probe oracle after every import run; in-process imports with injected storage write failures",
   "Sequences of imports through the real executable against databases holding real prior decisions; generated files (repeated keys, mixed blocks/attestations, per-field older/equal/newer, malformed numbers/keys, wrong metadata). After each run the database is reopened: no field lower than before; on exit 0 every field covers the maxima of file and history and the boundary requests are refused by the real rules; wrong metadata must fail and change nothing. Keys include opaque 48-byte values with leading zero nibbles/bytes; numbers are also spelled with leading zeros or a plus sign. A second slice runs the real import in-process while the n-th storage write fails (verifhook): it must never lower a record, and may report success only if every value of the file is recorded.",
   "Decisions probed at rules.Service on the same directory.",
   "5/C10"),
 "C11": ("exploration",
   "runtime monitor: export vs signed-history maxima; CLI export->import round trip and restart compared by identical probe sequences; legacy gob records vs specification",
   "Histories of real decisions, then in-process and CLI exports must equal the maxima signed; the export is imported by the CLI into an empty instance; the restarted original and the re-imported instance answer the same shuffled probe grid around every watermark identically and as the sequential specification demands; stores pre-populated with legacy gob records must export and decide like the specification seeded with those values; stores of 75..2600 keys (beyond one iterator batch and beyond a thousand records also in the quick tier), opaque non-BLS keys and histories that go through the batch rule with refusable entries are included.",
   "Legacy records are gob encodings of structs with the historical field names.",
   "5/C11"),
 "C15": ("exploration",
   "runtime monitor: shadow wait-for graph on an interposed locker with cycle detection, directed schedule steering, stress with injected yields, progress watchdog, race detector",
   "Liveness is restated as no wait-for cycle + bounded progress. Pairs of batches over ordered key selections are steered (A parked after its i-th lock until B reaches its j-th or a budget expires) for every position pair; 32 goroutines add random load with yields inside the interposer; a cycle found in the shadow graph is a proved deadlock; requests are also abandoned by their client while queued, and one storage operation in 41 fails during the load phase (a failing request must still finish and release its locks), and panics are injected while a batch's rules run (answered as the server's recovery interceptor answers them; the locks must be released all the same). A second child uses the real account fetcher: by-key single and batch requests over accounts created after start-up while accounts are being registered, with a 10 s no-progress watchdog; both children also run under the race detector. A finite run cannot decide liveness in general.",
   "Shadow holds are recorded after acquisition and cleared before release, so a shadow cycle is a real one.",
   "5/C15"),
 "C12": ("exploration",
   "runtime monitor: DKG consistency oracle over real multi-instance generations (all (n,t), id sets, initiators, commit arrival orders, tampered replies, retry after partial commit)",
   "Real key generations on in-process clusters of real instances (real wallets, receiver handlers, process services; a routing sender replaces the transport) for every n in 2..7 and every t in 0..n+1; after each success the accounts are read back from every participant's store and checked (composite = returned key, same vector of t entries, threshold, participants, share consistent, and the share as stored opens with the generation's passphrase - every second generation is requested without one - and signs as the account's key), every participant signs and lists without restart, all t-subsets recover and (t-1)-subsets do not; out-of-range t must be refused and create nothing; tampered commit replies and a retry after a partially committed attempt must never yield an inconsistent success; generations of different accounts of one wallet also run concurrently and each reported success must be complete on every participant. A wire variant runs generations on three real daemons (127.0.0.1-3, certificates generated at run time) through AccountManager.Generate.",
   "herumi polynomial evaluation / recovery used by the oracle; transport replaced in-process.",
   "5/C12"),
 "C13": ("fault_enumeration",
   "fault injection at every position of the prepare/execute/contribute message sequence (request and reply legs) with a no-account-anywhere / receiver-rejects / process-survives oracle, in child processes",
   "For (n,t) in {(2,2),(3,2),(3,3),(4,3),(5,3)}: each fault kind (lost, error reply, duplicate, random share, genuine share for another id, altered commitment, genuine vector too short / too long, empty vector, truncated vector entry, empty share) is injected at every message position, on requests and on contribution replies; the generation must fail, no participant may hold the account, the receiver must reject an invalid contribution, and the process must survive (a death is attributed to the last logged case). A wire slice has the harness play two configured peers against a real daemon, so that faulty contributions and replies pass through the real gRPC sender and receiver; that daemon is the build with the race detector and both peers contribute concurrently (every reply must carry the caller's own share; a race report with an access in Dirk code is a violation).",
   "Faults injected by the routing sender; duplicate execute/contribute deliveries are judged only by consistency of a successful result.",
   "5/C13"),
 "C14": ("exploration",
   "runtime monitor: valid-partial-signature counting over exhaustive / sampled routings of conflicting duty pairs across real instances of a distributed account",
   "For every (n,t) that generation accepts on clusters of 2..4 instances (each with its own slashing database), four kinds of conflicting duty pairs are routed to the instances in every combination of {none, D1, D2, both orders, concurrently, second duty hidden in a two-entry batch, first duty inside a batch (also with a refused last entry), a stale refusable attestation in between, second duty by over-long key}; genesis pairs (two attestations 0->0, two blocks at slot 0) come first on each fresh account; partial signatures are verified under the share keys; both duties must never reach t, and a duty that does must recover to a signature valid under the composite key.",
   "All t for each n are attempted so that a weakened threshold bound would be exercised.",
   "5/C14"),
 "C16": ("exploration",
   "runtime monitor: rogue-caller matrix on the receiver handlers followed by completion of the legitimate generation; share-ownership assertion on every contribution exchange",
   "Each protocol message x session state x non-peer caller kind (full-permission client, unknown, empty, no identity, near-miss peer names) is sent with hostile content; it must be refused, and the legitimate generation must then still complete with its original parameters and pass the consistency oracle; every contribution request/reply observed must be the share of exactly its addressee; with more peers configured than participating (5 peers, 2..4 participants), a peer outside the generation that sends a well-formed contribution must never be handed another identifier's share.",
   "Caller identity injected the way the ClientInfo interceptor does (C19 covers real certificates).",
   "5/C16"),
 "C17": ("exploration",
   "runtime monitor: three-valued session model with an interval clock over seeded event sequences on real instances",
   "Seeded sequences of prepare/execute/commit/abort/fabricated contributions/sleeps over two names on 3-instance clusters with a 1.5 s timeout; only the stated implications are asserted and only where the interval clock decides the session's state (unknown otherwise). A progress watchdog reports messages that never return. A generation that is aborted and prepared again must live for its own full timeout. A sliding-timeout scenario checks that messages during a generation do not extend it. An execute-in-flight scenario aborts and re-prepares a name while a contribution is delayed in transit: the new generation must not be committable.",
   "Expiry is real-time in the code; assertions are skipped in the timing grey zone.",
   "5/C17"),
 "C18": ("exploration",
   "differential monitor: real lister over a real fetcher vs reference permission model (soundness, completeness, key fidelity), before and after dynamic account creation (repeated creations in the same wallets; concurrent listings from several clients, also under the race detector)",
   "150+ generated permission tables x 12 path lists (wallet-only, expressions, unknown, malformed, duplicates) at service and handler boundary on a real fetcher; the same after accounts are created through Dirk (single and 2-of-2 distributed generation).",
   "Completeness uses the narrowest reading of 'matches'.",
   "5/C18"),
 "C19": ("exploration",
   "runtime monitor on the real daemon over TLS/gRPC: 16 methods x 20 caller credential kinds x 2 CA configurations, plus forged session tickets, with state-effect check on the stopped daemon's directories",
   "Every RPC of every registered service is called on a real dirk child process with certificates generated at run time; callers without a certificate from the configured authority must obtain nothing and change nothing, accepted callers get exactly what the permission table gives their subject common name (SAN and extra chain certificates must not count). Hostile certificates (self-signed, other authority, expired / not yet valid of each origin, server-only usage) are force-sent so that the server decides; a host trust store holding the other authority, source-port reuse by a different client, a server certificate bundle carrying the other authority's certificate, TLS session resumption with tickets the caller minted itself under guessable keys, and callers with different certificates served at the same time (on the daemon built with the race detector) are covered.",
   "Loopback TCP; state effects read after the daemon stops.",
   "5/C19"),
 "C20": ("exploration",
   "crash monitor: structure-aware hostile inputs + byte mutations against the real handlers (child process, inputs logged first, 8 GiB address-space cap) and against the real daemon over the wire, with canaries",
   "Tens of thousands of hostile requests for all 16 methods; a process death, an unanswered canary or an input unanswered for 45 s is a violation attributed to the last logged input; a concurrent phase mixes listing, account creation, signing and locking (in-process, over the wire and under the race detector). A panic in the goroutine serving a request in-process makes the input a candidate that is replayed against the real daemon, which decides; inputs of earlier findings are replayed in every run; text-shaped fields get malformed-Unicode generators; distributed generations that really run (fresh, existing and store-time-refused names) are part of the stream.",
   "A crash means process death or a failed canary; an error reply is fine.",
   "5/C20"),
}

# Sentences added by the tenth round of seeded changes (appended to the level text / technique of the check).
ROUND10_TEXT = {
 "C05": " A child process under the race detector runs generic requests, attestations and proposals at the same moment (start barrier, 16 requests per round): every generic signature must be over the request's own (data, domain), never over the caller's data under the domain of a neighbouring attestation or proposal.",
 "C06": " For a single request the short verdict list is the empty list.",
 "C08": " The real-fetcher slice also creates accounts through Dirk at run time (the same account name in two wallets) and signs with them by name and by key. A two-store slice builds the real fetcher over two wallet stores that each hold a wallet of the same name (both store orders, several builds): a request addressed by public key that is answered with a signature must be signed by that key (this found the defect repaired in /repo 8c63492).",
 "C10": " Wrong versions are older and newer ones (4, 3, 6, 15, 50, 51).",
 "C12": " After every generation each participant also signs addressed by the new account's public key (same signature as by name).",
 "C13": " The wire slice ends with forty generations in a row whose contribution the peer refuses with an RPC error: each must end with an error (execute answered), none may leave an account.",
 "C16": " Two participants contributing to the third at the same moment (start barrier, through the receiver handler) must each be answered with their own share.",
 "C17": " Every fourth prepare and abort is made with an already cancelled context.",
 "C18": " One account per run is created by a request whose context is already cancelled: if it exists in the wallet it must be listed.",
 "C19": " Valid certificates of the configured authority for names near a permitted one (other letter case, trailing space, prefix) are callers of their own name: not permitted.",
 "C20": " The wire daemon has two configured, unreachable peers and receives fifty well-formed distributed Generate requests in a row: each must be answered.",
}
ROUND10_TECH = {
 "C05": "; race detector over the three signing endpoints in flight together",
}

NOT_YET = {
}

def main():
    props = [json.loads(l) for l in open('/verif/properties.jsonl')]
    checks = []
    na = []
    for p in props:
        pid = p['id']
        if pid in CHECKS:
            cat, tech, text, note, ref = CHECKS[pid]
            text, tech = text + ROUND10_TEXT.get(pid, ""), tech + ROUND10_TECH.get(pid, "")
            checks.append({
                "property_id": pid,
                "quick_cmd": f"./check {pid} quick",
                "thorough_cmd": f"./check {pid} thorough",
                "evidence_file": f"/verif/evidence/{pid}.json",
                "replay_cmd_template": f"./check {pid} --replay {{path}}",
                "engine": "vh",
                "level_claimed": {"category": cat, "text": text, "design_ref": "DESIGN.md section " + ref},
                "level_note": note,
                "technique": tech,
            })
        else:
            na.append({"property_id": pid, "reason": NOT_YET.get(pid, "check not built yet in this revision of /verif (planned in DESIGN.md section 5); not claimed")})
    m = {
        "version": 1,
        "setup_cmd": "./setup.sh",
        "hooks": {
            "guard": "verif",
            "enable": "go build -tags verif (the harness module replaces github.com/attestantio/dirk with /repo, so every check compiles /repo's working tree with the tag on)",
            "baseline_off_cmd": "./tools/baseline-off.sh",
            "source_commits": HOOK_COMMITS,
            "add_only": True,
        },
        "engines": [
            {"name": "vh", "path": "/verif/harness", "serves_properties": sorted(CHECKS),
             "kind_free_text": "Go harness: real Dirk services/binary driven by seeded hostile workloads under monitors (slashability oracle, porcupine histories, wait-for graph, fault injectors, race detector, strace)"},
        ],
        "checks": checks,
        "not_applicable": na,
        "notes": "Technique family: runtime monitoring and sanitizers. The services under test run with logging disabled or at trace level into a discard sink, alternating per assembled stack, check number and seed. If the harness process is brought down by a panic or fatal error whose innermost non-runtime frame is Dirk's, ./check reports a violation with the output as witness; a death on harness frames is inconclusive. VERIF_SEED selects the PRNG seed (default 1). Exit 2 + INCONCLUSIVE line means the run could not decide (never folded into held/violated). known_findings.json lists repaired defects (fixed entries suppress nothing).",
    }
    json.dump(m, open('/verif/MANIFEST.json', 'w'), indent=1)
    print("claimed:", sorted(CHECKS), "not claimed:", [x['property_id'] for x in na])

main()
