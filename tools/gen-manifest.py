#!/usr/bin/env python3
"""Generates /verif/MANIFEST.json from the table below (single source of truth for what is claimed)."""
import json, subprocess

HOOK_COMMITS = ["4ce865f"]

# id -> (level category, technique, level text, level note, design ref)
CHECKS = {
 "C01": ("exploration",
   "runtime monitor: slashability oracle over released signatures of seeded hostile histories (+ record-before-sign assertion at the account boundary)",
   "Every signature released by the real signer stack over tens of thousands of generated requests (single/batch, by name/by key, duplicate keys, epochs incl. >= 2^63, restarts) is verified cryptographically, attributed to (key, data) and compared pairwise with all earlier releases for that key using the consensus-spec double-vote/surround predicates. Held on the histories explored; not a proof for all histories.",
   "Trusted: the harness's SSZ/signing-root code (cross-checked by verifying Dirk's own signatures), herumi BLS verification, the synthetic account/fetcher standing in for wallet files.",
   "5/C01"),
 "C02": ("exploration",
   "runtime monitor: double-proposal oracle + strict slot monotonicity over released signatures of seeded hostile histories",
   "Every released proposal signature over generated histories (by name/by key, slots incl. >= 2^63, restarts, service and handler boundary) is verified, then checked against all earlier releases for that key (same slot, different header) and against the strictly-increasing-slot clause. Held on the histories explored.",
   "Trusted: harness SSZ roots, herumi BLS verification, synthetic accounts.",
   "5/C02"),
 "C04": ("exploration",
   "runtime monitor: porcupine linearizability check of concurrent histories recorded at the signer boundary against Dirk's learned sequential semantics; slashability oracle; race detector; hook-steered overlaps",
   "Short, heavily contended concurrent histories (single and batch requests over 3 shared keys) are recorded at the signer.Service boundary with call/return stamps and, together with a final state read, checked by porcupine against an unpartitioned multi-key model whose step function is the real rules' single-threaded behaviour. A verifhook handler parks requests between their read and write while a rival is in flight so that broken locking becomes an overlap. The same workload runs under the Go race detector. Held on the interleavings observed (thousands of overlapping same-key pairs per run), not on all schedules.",
   "Trusted: porcupine v1.3.0; the learned table (real code run sequentially); monotonic clock stamps taken outside the call.",
   "5/C04"),
 "C05": ("exploration",
   "runtime monitor: domain-type / admin-IP oracle over all five signing endpoints at service and handler boundaries",
   "Thousands of requests covering endpoint x domain-type class (incl. look-alikes and lengths != 32 over the wire) x admin-IP list x source address class x batch position; the monitor asserts that generic/multi never return a signature under attester/proposer types (nor one that verifies under them), exits only from listed addresses, and that the protected endpoints refuse foreign types without touching stored state.",
   "Trusted: harness signing-root code; the IP in the credentials stands in for the SourceIP interceptor at the in-process boundary.",
   "5/C05"),
 "C08": ("exploration",
   "runtime monitor: independent BLS verification of every returned signature over harness-computed signing roots, across batch sizes x GOMAXPROCS; race detector on batch paths",
   "Every signature returned for well-formed random requests (single and batches of 24 sizes from 1 to 511, GOMAXPROCS 1..61, service and handler boundary, by name/key/over-long key) is verified with herumi directly under the addressed account's key over a signing root computed by the harness's own SSZ code, and must not verify under a neighbouring account of the batch; response lengths must equal request lengths. Batch paths also run under the race detector.",
   "Trusted: harness SSZ code, herumi VerifyByte.",
   "5/C08"),
 "C09": ("exploration",
   "runtime monitor: sequential watermark specification (advancing => signed), twin-instance batch-vs-single differential, exhaustive util.Scatter partition grid",
   "(1) In generated histories every request the specification calls advancing must be SUCCEEDED with a valid signature; (2) each batch of distinct keys is sent as a batch to one instance and entry-by-entry to a twin with the same history, verdict vectors must agree for sizes 1..400 and GOMAXPROCS 1..61; (3) util.Scatter is called for every n in 1..700 and 35 GOMAXPROCS values and its extents must partition [0,n) (that grid is exhaustive).",
   "Trusted: oracle.WM transcribes the statement; twin instances share nothing but the generator.",
   "5/C09"),
}

NOT_YET = {
}

def main():
    props = [json.loads(l) for l in open('/verif/properties.jsonl')]
    checks = []
    na = []
    for p in props:
        pid = p['id']
        if pid in CHECKS:
            cat, tech, text, note, ref = CHECKS[pid]
            checks.append({
                "property_id": pid,
                "quick_cmd": f"./check {pid} quick",
                "thorough_cmd": f"./check {pid} thorough",
                "evidence_file": f"/verif/evidence/{pid}.json",
                "replay_cmd_template": f"./check {pid} --replay {{path}}",
                "engine": "vh",
                "level_claimed": {"category": cat, "text": text, "design_ref": "DESIGN.md section " + ref},
                "level_note": note,
                "technique": tech,
            })
        else:
            na.append({"property_id": pid, "reason": NOT_YET.get(pid, "check not built yet in this revision of /verif (planned in DESIGN.md section 5); not claimed")})
    m = {
        "version": 1,
        "setup_cmd": "./setup.sh",
        "hooks": {
            "guard": "verif",
            "enable": "go build -tags verif (the harness module replaces github.com/attestantio/dirk with /repo, so every check compiles /repo's working tree with the tag on)",
            "baseline_off_cmd": "./tools/baseline-off.sh",
            "source_commits": HOOK_COMMITS,
            "add_only": True,
        },
        "engines": [
            {"name": "vh", "path": "/verif/harness", "serves_properties": sorted(CHECKS),
             "kind_free_text": "Go harness: real Dirk services/binary driven by seeded hostile workloads under monitors (slashability oracle, porcupine histories, wait-for graph, fault injectors, race detector, strace)"},
        ],
        "checks": checks,
        "not_applicable": na,
        "notes": "Technique family: runtime monitoring and sanitizers. VERIF_SEED selects the PRNG seed (default 1). Exit 2 + INCONCLUSIVE line means the run could not decide (never folded into held/violated). known_findings.json lists repaired defects (fixed entries suppress nothing).",
    }
    json.dump(m, open('/verif/MANIFEST.json', 'w'), indent=1)
    print("claimed:", sorted(CHECKS), "not claimed:", [x['property_id'] for x in na])

main()
