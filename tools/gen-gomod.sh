#!/bin/bash
# Regenerates harness/go.mod and go.sum from /repo's go.mod so that module resolution
# picks exactly the versions /repo builds with (anything else cannot be fetched offline).
set -e
# VERIF_REPO (default /repo) lets a background sweep build from a snapshot of the repository instead.
REPO=${VERIF_REPO:-/repo}
H=$(cd "$(dirname "${BASH_SOURCE[0]}")/.." && pwd)/harness
TMP=$(mktemp)
{
  echo "module verif/harness"
  echo
  sed -n '2,$p' $REPO/go.mod
  echo
  echo "require github.com/attestantio/dirk v0.0.0"
  echo "require github.com/anishathalye/porcupine v1.3.0"
  echo
  echo "replace github.com/attestantio/dirk => $REPO"
} > "$TMP"
if ! cmp -s "$TMP" $H/go.mod; then cp "$TMP" $H/go.mod; fi
rm -f "$TMP"
# go.sum: /repo's plus what we have recorded for porcupine.
cat $REPO/go.sum $H/go.sum.extra 2>/dev/null | sort -u > $H/go.sum.new
if ! cmp -s $H/go.sum.new $H/go.sum; then mv $H/go.sum.new $H/go.sum; else rm $H/go.sum.new; fi
