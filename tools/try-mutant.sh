#!/bin/bash
# usage: try-mutant.sh <patch.diff> <check id>...   — applies the patch to /repo, runs the checks (quick), always undoes it.
P=$1; shift
cd /repo && git apply "$P" || { echo "APPLY FAILED $P"; exit 2; }
# Evidence written while the tree was changed is discarded (the committed evidence comes from clean runs only).
# Binaries built from the changed tree must not survive it (a stale .bin/vh-race once produced a spurious report).
trap 'cd /repo && git checkout -- . && git clean -fdq; rm -f /verif/.bin/vh /verif/.bin/vh-race /verif/.bin/dirk /verif/.bin/dirk-race; git -C /verif checkout -q -- evidence' EXIT
for chk in "$@"; do
  cd /verif && out=$(./check $chk quick 2>&1); rc=$?
  echo "$(basename $(dirname $P)) vs $chk: rc=$rc $(echo "$out" | grep -c '^VIOLATION') violations; $(echo "$out" | grep 'detail:' | head -1 | cut -c1-230)"
done
