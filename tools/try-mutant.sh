#!/bin/bash
# usage: try-mutant.sh <patch.diff> <check id>...   — applies the patch to /repo, runs the checks (quick), always undoes it.
P=$1; shift
cd /repo && git apply "$P" || { echo "APPLY FAILED $P"; exit 2; }
trap 'cd /repo && git checkout -- . && git clean -fdq' EXIT
for chk in "$@"; do
  cd /verif && out=$(./check $chk quick 2>&1); rc=$?
  echo "$(basename $(dirname $P)) vs $chk: rc=$rc $(echo "$out" | grep -c '^VIOLATION') violations; $(echo "$out" | grep 'detail:' | head -1 | cut -c1-230)"
done
