#!/usr/bin/env python3
"""save-mutant.py <id> <name> <needs> <caught_by> : copies a confirmed seeded change into /verif/seeded/<name>/"""
import sys, json, shutil, os, glob
pid, name, needs, caught = sys.argv[1:5]
src = f"/tmp/mut/{pid}-out"
dst = f"/verif/seeded/{name}"
os.makedirs(dst, exist_ok=True)
shutil.copy(src + "/patch.diff", dst + "/patch.diff")
for f in glob.glob(src + "/*_test.go") + glob.glob(src + "/notes.md"):
    shutil.copy(f, dst + "/" + os.path.basename(f).replace("_test.go", "_test.go.txt"))
confirm = open(f"/tmp/mut/{pid}-confirm.txt").read()
meta = {
    "property": pid.rstrip("bcdefghij"),
    "breaks": open(src + "/notes.md").read().split("\n\n")[0][:600],
    "needs_to_manifest": needs,
    "confirmed_by_me": {
        "procedure": "tools/confirm-mutant.sh in a scratch worktree: patch applies on the clean tree, go build ./..., full pinned suite with the change (every BASELINE stable test passes), demonstration fails with the change and passes without",
        "output": confirm,
    },
    "caught_by": caught,
}
json.dump(meta, open(dst + "/meta.json", "w"), indent=1)
print("saved", dst)
