#!/bin/bash
# Runs the repository's pinned suite with the verif tag OFF and compares with BASELINE.json's stable set.
set -u
export GOFLAGS=-mod=mod GOPROXY=off GOSUMDB=off GOTOOLCHAIN=local
OUT=$(mktemp /verif/.work/baseline.XXXXXX.json)
mkdir -p /verif/.work
(cd /repo && go test -mod=mod -json -vet=off -count=1 -timeout 25m ./... > "$OUT" 2>/dev/null)
python3 - "$OUT" <<'PY'
import json, sys
passed = set()
for l in open(sys.argv[1]):
    try: e = json.loads(l)
    except Exception: continue
    if e.get('Action') == 'pass' and e.get('Test'):
        passed.add(e['Package'] + '::' + e['Test'])
stable = set(json.load(open('/root/.vp/BASELINE.json'))['stable_pass'])
missing = sorted(stable - passed)
print(f"passed={len(passed)} stable={len(stable)} missing={len(missing)}")
for m in missing[:20]: print("MISSING", m)
sys.exit(1 if missing else 0)
PY
rc=$?
rm -f "$OUT"
exit $rc
