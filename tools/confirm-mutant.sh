#!/bin/bash
# usage: confirm-mutant.sh <worktree> <outdir> <demo-pkg-dir-relative> <demo test run regex>
# Confirms a seeded change independently: applies on a clean worktree, builds, runs the pinned suite
# (must contain every stable test), runs the demo with and without the change.
set -u
export GOFLAGS=-mod=mod GOPROXY=off GOSUMDB=off GOTOOLCHAIN=local
WT=$1; OUT=$2; PKG=$3; RUN=$4
# Own temporary directory: suites confirmed side by side otherwise share fixed temporary paths (TestRules/PathGood).
export TMPDIR=$(mktemp -d /tmp/confirm-tmp.XXXXXX); trap 'rm -rf "$TMPDIR"' EXIT
cd "$WT" || exit 2
DEMO=$(ls "$OUT"/*_test.go | head -1)
git checkout -q -- . ; git clean -fdq
git apply "$OUT/patch.diff" || { echo "PATCH DOES NOT APPLY"; exit 2; }
if git diff --name-only | grep -q '_test.go$'; then echo "PATCH TOUCHES TESTS"; exit 2; fi
go build ./... || { echo "DOES NOT BUILD"; exit 2; }
go test -json -vet=off -count=1 -timeout 25m ./... > /tmp/confirm-$$.json 2>/dev/null
python3 - /tmp/confirm-$$.json <<'PY'
import json, sys
passed=set()
for l in open(sys.argv[1]):
    try: e=json.loads(l)
    except Exception: continue
    if e.get('Action')=='pass' and e.get('Test'): passed.add(e['Package']+'::'+e['Test'])
stable=set(json.load(open('/root/.vp/BASELINE.json'))['stable_pass'])
missing=sorted(stable-passed)
print("SUITE with change: passed=%d stable_missing=%d"%(len(passed),len(missing)))
for m in missing[:10]: print("  MISSING", m)
PY
rm -f /tmp/confirm-$$.json
cp "$DEMO" "$PKG/zz_demo_test.go"
echo "--- demo WITH change:"
go test ${DEMO_TAGS:-} ${DEMO_FLAGS:-} -vet=off -count=1 -run "$RUN" "./$PKG/" 2>&1 | grep -v '^{"level"' | tail -5
git apply -R "$OUT/patch.diff"
echo "--- demo WITHOUT change:"
go test ${DEMO_TAGS:-} ${DEMO_FLAGS:-} -vet=off -count=1 -run "$RUN" "./$PKG/" 2>&1 | grep -v '^{"level"' | tail -3
rm -f "$PKG/zz_demo_test.go"
git checkout -q -- . ; git clean -fdq
