#!/bin/bash
# Offline setup: build the harness (plain and -race) and the dirk binary once so the caches are warm.
set -e
ROOT=$(cd "$(dirname "${BASH_SOURCE[0]}")" && pwd)
cd "$ROOT"
export GOFLAGS=-mod=mod GOPROXY=off GOSUMDB=off GOTOOLCHAIN=local CGO_ENABLED=1
mkdir -p .bin .work evidence
tools/gen-gomod.sh
(cd harness && go build -tags verif -o "$ROOT/.bin/vh" ./cmd/vh && go build -race -tags verif -o "$ROOT/.bin/vh-race" ./cmd/vh)
(cd "${VERIF_REPO:-/repo}" && go build -tags verif -o "$ROOT/.bin/dirk" . && go build -race -tags verif -o "$ROOT/.bin/dirk-race" .)
echo setup ok
