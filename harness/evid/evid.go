// Package evid writes the evidence file and prints verdict lines.
package evid

import (
	"encoding/json"
	"fmt"
	"os"
	"path/filepath"
	"sort"
	"strings"
	"sync"
	"time"
)

// Run accumulates what one check run observed.
type Run struct {
	Property string
	Tier     string
	Seed     int64
	Level    string
	Rule     string
	Assume   []string
	start    time.Time

	mu           sync.Mutex
	evaluations  int
	distinct     map[string]struct{}
	samples      []any
	maxSamples   int
	counters     map[string]int
	extra        map[string]any
	violations   []Violation
	known        []string
	inconclusive []string
	exhaustive   bool
	openFindings []knownFinding
	reported     map[string]bool
}

// Violation is one refuting observation.
type Violation struct {
	What   string `json:"what"`
	Replay string `json:"replay"`
}

// knownFinding is an "open" entry of known_findings.json: a genuine defect that is recorded rather than
// repaired.  A violation whose description contains Match is reported as KNOWN-FINDING instead of VIOLATION.
type knownFinding struct {
	Property string `json:"property"`
	Match    string `json:"match"`
	What     string `json:"what"`
}

func loadKnown(property string) []knownFinding {
	data, err := os.ReadFile(filepath.Join(Root(), "known_findings.json"))
	if err != nil {
		return nil
	}
	var f struct {
		Open []knownFinding `json:"open"`
	}
	if json.Unmarshal(data, &f) != nil {
		return nil
	}
	var out []knownFinding
	for _, k := range f.Open {
		if k.Property == property && k.Match != "" {
			out = append(out, k)
		}
	}
	return out
}

func New(property, tier string, seed int64, level string) *Run {
	return &Run{openFindings: loadKnown(property), reported: map[string]bool{}, Property: property, Tier: tier, Seed: seed, Level: level, start: time.Now(),
		distinct: map[string]struct{}{}, counters: map[string]int{}, extra: map[string]any{}, maxSamples: 6}
}

// Eval counts n evaluated cases.
func (r *Run) Eval(n int) {
	r.mu.Lock()
	r.evaluations += n
	r.mu.Unlock()
}

// Distinct records a non-trivial case class; identical keys are counted once.
func (r *Run) Distinct(key string) {
	r.mu.Lock()
	r.distinct[key] = struct{}{}
	r.mu.Unlock()
}

// Count adds to a named counter reported under coverage.counters.
func (r *Run) Count(name string, n int) {
	r.mu.Lock()
	r.counters[name] += n
	r.mu.Unlock()
}

// Get returns a counter.
func (r *Run) Get(name string) int {
	r.mu.Lock()
	defer r.mu.Unlock()
	return r.counters[name]
}

// Max keeps the maximum of a named counter.
func (r *Run) Max(name string, v int) {
	r.mu.Lock()
	if v > r.counters[name] {
		r.counters[name] = v
	}
	r.mu.Unlock()
}

// Sample keeps the first few samples.
func (r *Run) Sample(s any) {
	r.mu.Lock()
	if len(r.samples) < r.maxSamples {
		r.samples = append(r.samples, s)
	}
	r.mu.Unlock()
}

// Set stores an extra coverage key.
func (r *Run) Set(k string, v any) {
	r.mu.Lock()
	r.extra[k] = v
	r.mu.Unlock()
}

// SetExhaustive flags complete enumeration of a finite sub-space.
func (r *Run) SetExhaustive(b bool) { r.exhaustive = b }

// NumViolations returns the number of violations so far.
func (r *Run) NumViolations() int {
	r.mu.Lock()
	defer r.mu.Unlock()
	return len(r.violations)
}

// Violate records a violation, writes its replay file and prints the VIOLATION line.
// Only the first 20 are written out in full.
func (r *Run) Violate(what string, witness any) {
	for _, k := range r.openFindings {
		if strings.Contains(what, k.Match) {
			r.mu.Lock()
			first := !r.reported[k.Match]
			r.reported[k.Match] = true
			r.mu.Unlock()
			if first {
				r.Known(k.What + " (observed: " + what + ")")
			}
			return
		}
	}
	r.mu.Lock()
	n := len(r.violations)
	r.mu.Unlock()
	if n >= 20 {
		r.mu.Lock()
		r.violations = append(r.violations, Violation{What: what})
		r.mu.Unlock()
		return
	}
	dir := filepath.Join(Root(), "replays", r.Property)
	_ = os.MkdirAll(dir, 0o755)
	path := filepath.Join(dir, fmt.Sprintf("%s-seed%d-%d.json", r.Tier, r.Seed, n))
	data, _ := json.MarshalIndent(map[string]any{
		"property": r.Property, "tier": r.Tier, "seed": r.Seed, "what": what, "witness": witness,
	}, "", " ")
	_ = os.WriteFile(path, data, 0o644)
	r.mu.Lock()
	r.violations = append(r.violations, Violation{What: what, Replay: path})
	r.mu.Unlock()
	fmt.Printf("VIOLATION property=%s replay=%s\n", r.Property, path)
	fmt.Printf("  detail: %s\n", what)
}

// Known prints a KNOWN-FINDING line.
func (r *Run) Known(what string) {
	r.mu.Lock()
	r.known = append(r.known, what)
	r.mu.Unlock()
	fmt.Printf("KNOWN-FINDING: property=%s %s\n", r.Property, what)
}

// Inconclusive marks the run inconclusive.
func (r *Run) Inconclusive(reason string) {
	r.mu.Lock()
	r.inconclusive = append(r.inconclusive, reason)
	r.mu.Unlock()
	fmt.Printf("INCONCLUSIVE property=%s reason=%s\n", r.Property, reason)
}

// Root is the /verif directory.
func Root() string {
	if v := os.Getenv("VERIF_ROOT"); v != "" {
		return v
	}
	return "/verif"
}

// Finish writes the evidence file and returns the process exit code.
func (r *Run) Finish() int {
	r.mu.Lock()
	defer r.mu.Unlock()
	cov := map[string]any{
		"evaluations":         r.evaluations,
		"distinct_nontrivial": len(r.distinct),
		"rule":                r.Rule,
		"samples":             r.samples,
		"counters":            r.counters,
	}
	if r.exhaustive {
		cov["exhaustive"] = true
	}
	for k, v := range r.extra {
		cov[k] = v
	}
	classes := make([]string, 0, len(r.distinct))
	for k := range r.distinct {
		classes = append(classes, k)
	}
	sort.Strings(classes)
	if len(classes) > 60 {
		classes = classes[:60]
	}
	cov["distinct_classes_sample"] = classes
	if len(r.samples) == 0 {
		cov["samples"] = []any{"(none)"}
	}
	verdict := "held_on_observed"
	if len(r.violations) > 0 {
		verdict = "violated"
	} else if len(r.inconclusive) > 0 {
		verdict = "inconclusive"
	}
	cov["verdict"] = verdict
	if m := os.Getenv("VERIF_LOG"); m != "" {
		cov["services_log_level"] = map[string]string{"off": "disabled", "trace": "trace (into a discard sink)"}[m]
	}
	if len(r.inconclusive) > 0 {
		cov["inconclusive_reasons"] = r.inconclusive
	}
	if len(r.known) > 0 {
		cov["known_findings_reported"] = r.known
	}
	if len(r.violations) > 0 {
		v := r.violations
		if len(v) > 20 {
			v = v[:20]
		}
		cov["violations_detail"] = v
	}
	ev := map[string]any{
		"property_id": r.Property,
		"tier":        r.Tier,
		"seed":        r.Seed,
		"level":       r.Level,
		"coverage":    cov,
		"assumptions": r.Assume,
		"wall_s":      time.Since(r.start).Seconds(),
		"violations":  len(r.violations),
	}
	if r.Assume == nil {
		ev["assumptions"] = []string{}
	}
	dir := filepath.Join(Root(), "evidence")
	_ = os.MkdirAll(dir, 0o755)
	data, _ := json.MarshalIndent(ev, "", " ")
	if err := os.WriteFile(filepath.Join(dir, r.Property+".json"), append(data, '\n'), 0o644); err != nil {
		fmt.Fprintf(os.Stderr, "cannot write evidence: %v\n", err)
		return 3
	}
	fmt.Printf("%s %s seed=%d: %s; evaluations=%d distinct=%d violations=%d wall=%.1fs\n",
		r.Property, r.Tier, r.Seed, verdict, r.evaluations, len(r.distinct), len(r.violations), time.Since(r.start).Seconds())
	switch verdict {
	case "violated":
		return 1
	case "inconclusive":
		return 2
	}
	return 0
}
