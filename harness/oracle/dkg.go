package oracle

import (
	"bytes"
	"encoding/binary"
	"fmt"
	"sort"

	"github.com/herumi/bls-eth-go-binary/bls"
)

// BLSID converts a participant identifier to a BLS ID (little-endian 8 bytes), independently of Dirk's helper.
func BLSID(id uint64) (*bls.ID, error) {
	var buf [8]byte
	binary.LittleEndian.PutUint64(buf[:], id)
	var res bls.ID
	if err := res.SetLittleEndian(buf[:]); err != nil {
		return nil, err
	}
	return &res, nil
}

// DKGView is what one participant holds after a generation.
type DKGView struct {
	ID           uint64
	Composite    []byte
	VVec         [][]byte
	Threshold    uint32
	Participants map[uint64]string
	SharePub     []byte
	// StoredShareProblem is non-empty when the account as read back from the participant's store cannot be opened
	// with the passphrase the generation was given, or opens to a key other than SharePub.
	StoredShareProblem string
}

// EvalVVec evaluates the verification vector (a polynomial of public keys) at a participant id.
func EvalVVec(vvec [][]byte, id uint64) ([]byte, error) {
	keys := make([]bls.PublicKey, len(vvec))
	for i, b := range vvec {
		if err := keys[i].Deserialize(b); err != nil {
			return nil, err
		}
	}
	bid, err := BLSID(id)
	if err != nil {
		return nil, err
	}
	var pk bls.PublicKey
	if err := pk.Set(keys, bid); err != nil {
		return nil, err
	}
	return pk.Serialize(), nil
}

// CheckDKGViews checks that all participants hold one consistent threshold key.
func CheckDKGViews(views []DKGView, returned []byte, t uint32, ids []uint64) []string {
	var problems []string
	if len(views) != len(ids) {
		problems = append(problems, fmt.Sprintf("%d of %d participants hold the account", len(views), len(ids)))
	}
	if len(views) == 0 {
		return problems
	}
	want := append([]uint64(nil), ids...)
	sort.Slice(want, func(i, j int) bool { return want[i] < want[j] })
	for _, v := range views {
		if v.StoredShareProblem != "" {
			problems = append(problems, fmt.Sprintf("participant %d holds the account but not a usable private share: %s", v.ID, v.StoredShareProblem))
		}
		if !bytes.Equal(v.Composite, returned) {
			problems = append(problems, fmt.Sprintf("participant %d holds composite key %x, the client was told %x", v.ID, v.Composite[:6], returned[:min(6, len(returned))]))
		}
		if v.Threshold != t {
			problems = append(problems, fmt.Sprintf("participant %d holds threshold %d, requested %d", v.ID, v.Threshold, t))
		}
		if len(v.VVec) != int(t) {
			problems = append(problems, fmt.Sprintf("participant %d holds a verification vector of %d entries for threshold %d", v.ID, len(v.VVec), t))
		}
		if len(v.VVec) != len(views[0].VVec) {
			problems = append(problems, fmt.Sprintf("participants %d and %d hold verification vectors of different length", v.ID, views[0].ID))
		} else {
			for i := range v.VVec {
				if !bytes.Equal(v.VVec[i], views[0].VVec[i]) {
					problems = append(problems, fmt.Sprintf("participants %d and %d disagree on verification vector entry %d", v.ID, views[0].ID, i))
					break
				}
			}
		}
		if len(v.VVec) > 0 && !bytes.Equal(v.VVec[0], v.Composite) {
			problems = append(problems, fmt.Sprintf("participant %d: composite key is not the constant term of the verification vector", v.ID))
		}
		got := make([]uint64, 0, len(v.Participants))
		for id := range v.Participants {
			got = append(got, id)
		}
		sort.Slice(got, func(i, j int) bool { return got[i] < got[j] })
		if fmt.Sprint(got) != fmt.Sprint(want) {
			problems = append(problems, fmt.Sprintf("participant %d lists participants %v, expected %v", v.ID, got, want))
		}
		ev, err := EvalVVec(v.VVec, v.ID)
		if err != nil {
			problems = append(problems, fmt.Sprintf("participant %d: cannot evaluate verification vector: %v", v.ID, err))
		} else if !bytes.Equal(ev, v.SharePub) {
			problems = append(problems, fmt.Sprintf("participant %d: private share is not consistent with the verification vector", v.ID))
		}
	}
	return problems
}

// Recover combines partial signatures of the given participants.
func Recover(sigs map[uint64][]byte, ids []uint64) ([]byte, error) {
	bs := make([]bls.Sign, len(ids))
	bi := make([]bls.ID, len(ids))
	for i, id := range ids {
		if err := bs[i].Deserialize(sigs[id]); err != nil {
			return nil, err
		}
		p, err := BLSID(id)
		if err != nil {
			return nil, err
		}
		bi[i] = *p
	}
	var out bls.Sign
	if err := out.Recover(bs, bi); err != nil {
		return nil, err
	}
	return out.Serialize(), nil
}

// Subsets returns all k-subsets of ids, or a deterministic sample of at most limit of them.
func Subsets(ids []uint64, k int, limit int) [][]uint64 {
	var out [][]uint64
	var rec func(start int, cur []uint64)
	rec = func(start int, cur []uint64) {
		if len(out) >= limit {
			return
		}
		if len(cur) == k {
			out = append(out, append([]uint64(nil), cur...))
			return
		}
		for i := start; i < len(ids); i++ {
			rec(i+1, append(cur, ids[i]))
		}
	}
	rec(0, nil)
	return out
}
