package oracle

import (
	"regexp"
	"strings"
)

// PermEntry is one ordered permission entry of a client.
type PermEntry struct {
	Path string
	Ops  []string
}

// PermTable maps a client to its ordered entries.
type PermTable map[string][]PermEntry

// Allowed is the literal transcription of the statement of C07: scanning the client's entries in
// order and, within each entry whose wallet and account patterns match the WHOLE wallet and account
// name case-insensitively (an empty pattern matches anything), its operations in order, the first item
// bearing on the operation decides: "All" or the operation allow, "None" or "~operation" deny.
// No bearing item, unknown client, or no client: refused.
func (t PermTable) Allowed(client, wallet, account, op string) bool {
	if client == "" || wallet == "" {
		return false
	}
	entries, ok := t[client]
	if !ok {
		return false
	}
	for _, e := range entries {
		wp, ap := e.Path, ""
		if i := strings.Index(e.Path, "/"); i >= 0 {
			wp, ap = e.Path[:i], e.Path[i+1:]
		}
		if !wholeMatch(wp, wallet) || !wholeMatch(ap, account) {
			continue
		}
		for _, item := range e.Ops {
			switch {
			case strings.EqualFold(item, "None"), strings.EqualFold(item, "~"+op):
				return false
			case strings.EqualFold(item, "All"), strings.EqualFold(item, op):
				return true
			}
		}
	}
	return false
}

func wholeMatch(pattern, name string) bool {
	if pattern == "" {
		return true
	}
	re, err := regexp.Compile("(?i)^(?:" + pattern + ")$")
	if err != nil {
		return false
	}
	return re.MatchString(name)
}
