// Package oracle holds the reference models the monitors judge executions with.  Nothing
// in here imports Dirk's implementation of the thing being judged.
package oracle

import (
	"crypto/sha256"
	"encoding/binary"
	"fmt"

	"github.com/herumi/bls-eth-go-binary/bls"
)

func hash2(a, b [32]byte) [32]byte {
	var buf [64]byte
	copy(buf[:32], a[:])
	copy(buf[32:], b[:])
	return sha256.Sum256(buf[:])
}

func u64chunk(v uint64) [32]byte {
	var c [32]byte
	binary.LittleEndian.PutUint64(c[:8], v)
	return c
}

func b32(b []byte) [32]byte {
	var c [32]byte
	copy(c[:], b)
	return c
}

// merkle8 merkleises up to eight chunks (padding with zero chunks).
func merkle8(chunks ...[32]byte) [32]byte {
	var l [8][32]byte
	copy(l[:], chunks)
	var m [4][32]byte
	for i := range m {
		m[i] = hash2(l[2*i], l[2*i+1])
	}
	return hash2(hash2(m[0], m[1]), hash2(m[2], m[3]))
}

// CheckpointRoot is hash_tree_root(Checkpoint).
func CheckpointRoot(epoch uint64, root []byte) [32]byte {
	return hash2(u64chunk(epoch), b32(root))
}

// AttestationDataRoot is hash_tree_root(AttestationData).
func AttestationDataRoot(slot, index uint64, beaconBlockRoot []byte, srcEpoch uint64, srcRoot []byte, tgtEpoch uint64, tgtRoot []byte) [32]byte {
	return merkle8(u64chunk(slot), u64chunk(index), b32(beaconBlockRoot),
		CheckpointRoot(srcEpoch, srcRoot), CheckpointRoot(tgtEpoch, tgtRoot))
}

// BlockHeaderRoot is hash_tree_root(BeaconBlockHeader).
func BlockHeaderRoot(slot, proposerIndex uint64, parentRoot, stateRoot, bodyRoot []byte) [32]byte {
	return merkle8(u64chunk(slot), u64chunk(proposerIndex), b32(parentRoot), b32(stateRoot), b32(bodyRoot))
}

// SigningRoot is hash_tree_root(SigningData{object_root, domain}).
func SigningRoot(objectRoot [32]byte, domain []byte) [32]byte {
	return hash2(objectRoot, b32(domain))
}

// VerifySig checks a BLS signature with the herumi library directly.
func VerifySig(pub []byte, msg []byte, sig []byte) (bool, error) {
	var pk bls.PublicKey
	if err := pk.Deserialize(pub); err != nil {
		return false, fmt.Errorf("bad public key: %w", err)
	}
	var s bls.Sign
	if err := s.Deserialize(sig); err != nil {
		return false, fmt.Errorf("bad signature: %w", err)
	}
	// A private copy: cgo refuses a pointer into a Go object that itself holds Go pointers.
	m := append([]byte(nil), msg...)
	return s.VerifyByte(&pk, m), nil
}
