package oracle

import (
	"fmt"
	"sync"
)

// Att is a released attestation signature.
type Att struct {
	Source, Target uint64
	Root           [32]byte // signing root
	Seq            int      // order of release (for reporting)
}

// Prop is a released proposal signature.
type Prop struct {
	Slot uint64
	Root [32]byte
	Seq  int
}

// Slash is the slashability checker: per public key it remembers every released
// signature and checks each new one against all earlier ones with the consensus-spec
// predicates.  It knows nothing about watermarks.  Thread-safe.
type Slash struct {
	mu    sync.Mutex
	atts  map[[48]byte][]Att
	props map[[48]byte][]Prop
	seq   int
	Pairs int // pairs compared
}

func NewSlash() *Slash {
	return &Slash{atts: map[[48]byte][]Att{}, props: map[[48]byte][]Prop{}}
}

// IsSlashableAtt is the consensus-spec is_slashable_attestation_data predicate.
func IsSlashableAtt(a, b Att) (bool, string) {
	if a.Target == b.Target && a.Root != b.Root {
		return true, "double vote"
	}
	if a.Source < b.Source && b.Target < a.Target {
		return true, "first surrounds second"
	}
	if b.Source < a.Source && a.Target < b.Target {
		return true, "second surrounds first"
	}
	return false, ""
}

// AddAtt records a released attestation; it returns a description of the conflict if the
// new signature is slashable against an earlier one.
func (s *Slash) AddAtt(pub [48]byte, source, target uint64, root [32]byte) string {
	s.mu.Lock()
	defer s.mu.Unlock()
	s.seq++
	n := Att{Source: source, Target: target, Root: root, Seq: s.seq}
	var res string
	for _, o := range s.atts[pub] {
		s.Pairs++
		if bad, why := IsSlashableAtt(o, n); bad && res == "" {
			res = fmt.Sprintf("%s: key %x released #%d (%d->%d root %x) and #%d (%d->%d root %x)",
				why, pub[:6], o.Seq, o.Source, o.Target, o.Root[:4], n.Seq, n.Source, n.Target, n.Root[:4])
		}
	}
	s.atts[pub] = append(s.atts[pub], n)
	return res
}

// AddProp records a released proposal and reports a double proposal.
func (s *Slash) AddProp(pub [48]byte, slot uint64, root [32]byte) string {
	s.mu.Lock()
	defer s.mu.Unlock()
	s.seq++
	n := Prop{Slot: slot, Root: root, Seq: s.seq}
	var res string
	for _, o := range s.props[pub] {
		s.Pairs++
		if o.Slot == n.Slot && o.Root != n.Root && res == "" {
			res = fmt.Sprintf("double proposal: key %x released #%d (slot %d root %x) and #%d (slot %d root %x)",
				pub[:6], o.Seq, o.Slot, o.Root[:4], n.Seq, n.Slot, n.Root[:4])
		}
	}
	s.props[pub] = append(s.props[pub], n)
	return res
}

// Atts returns the released attestations of a key in order of release.
func (s *Slash) Atts(pub [48]byte) []Att {
	s.mu.Lock()
	defer s.mu.Unlock()
	return append([]Att(nil), s.atts[pub]...)
}

// Props returns the released proposals of a key in order of release.
func (s *Slash) Props(pub [48]byte) []Prop {
	s.mu.Lock()
	defer s.mu.Unlock()
	return append([]Prop(nil), s.props[pub]...)
}

// WM is the sequential watermark specification: what has been signed so far for one key.
type WM struct {
	HasAtt         bool
	MaxSrc, MaxTgt uint64
	HasProp        bool
	MaxSlot        uint64
}

// AttAdvancing reports whether the attestation is "advancing" by the statement of C09.
func (w *WM) AttAdvancing(src, tgt uint64) bool {
	if src >= 1<<63 || tgt >= 1<<63 {
		return false
	}
	if !(tgt > src || (src == 0 && tgt == 0)) {
		return false
	}
	if w.HasAtt && (tgt <= w.MaxTgt || src < w.MaxSrc) {
		return false
	}
	return true
}

// PropAdvancing reports whether the proposal is advancing.
func (w *WM) PropAdvancing(slot uint64) bool {
	if slot >= 1<<63 {
		return false
	}
	return !w.HasProp || slot > w.MaxSlot
}

// SignedAtt records a signed attestation.
func (w *WM) SignedAtt(src, tgt uint64) {
	if !w.HasAtt || src > w.MaxSrc {
		w.MaxSrc = src
	}
	if !w.HasAtt || tgt > w.MaxTgt {
		w.MaxTgt = tgt
	}
	w.HasAtt = true
}

// SignedProp records a signed proposal.
func (w *WM) SignedProp(slot uint64) {
	if !w.HasProp || slot > w.MaxSlot {
		w.MaxSlot = slot
	}
	w.HasProp = true
}
