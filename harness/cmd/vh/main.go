// Command vh runs the verification workloads: vh <property> [-tier quick|thorough] [-seed n] [-work dir]
package main

import (
	"flag"
	"fmt"
	"os"
	"runtime"
	"strconv"
	"time"

	"verif/harness/props"
	"verif/harness/rig"
)

var table = map[string]func(props.Cfg) int{
	"C01": props.C01,
	"C02": props.C02,
	"C03": props.C03,
	"C04": props.C04,
	"C05": props.C05,
	"C06": props.C06,
	"C07": props.C07,
	"C08": props.C08,
	"C09": props.C09,
	"C10": props.C10,
	"C11": props.C11,
	"C12": props.C12,
	"C13": props.C13,
	"C14": props.C14,
	"C15": props.C15,
	"C16": props.C16,
	"C17": props.C17,
	"C18": props.C18,
	"C19": props.C19,
	"C20": props.C20,
}

func main() {
	rig.Init()
	if len(os.Args) < 2 {
		fmt.Fprintln(os.Stderr, "usage: vh <property|child-role> [flags]")
		os.Exit(3)
	}
	name := os.Args[1]
	fs := flag.NewFlagSet(name, flag.ExitOnError)
	tier := fs.String("tier", "quick", "quick or thorough")
	seed := fs.Int64("seed", 1, "seed")
	work := fs.String("work", "", "scratch directory")
	_ = fs.Parse(os.Args[2:])
	if v := os.Getenv("VERIF_SEED"); v != "" && !isFlagSet(fs, "seed") {
		if n, err := strconv.ParseInt(v, 10, 64); err == nil {
			*seed = n
		}
	}
	if *work == "" {
		*work = "/verif/.work/" + name
	}
	_ = os.MkdirAll(*work, 0o755)
	cfg := props.Cfg{Tier: *tier, Seed: *seed, Work: *work, Args: fs.Args()}
	// Logging of the services under test: either disabled or at trace level into a discard sink (every log statement's
	// arguments are then evaluated and level-dependent code runs).  Which one alternates with the check number and
	// the seed, so that seeds 1 and 2 together run every check both ways; child processes inherit the choice.
	logMode := os.Getenv("VERIF_LOG")
	if logMode == "" {
		logMode = "off"
		if _, ok := table[name]; ok && len(name) == 3 {
			if n, err := strconv.Atoi(name[1:]); err == nil && (int64(n)+*seed)%2 == 0 {
				logMode = "trace"
			}
		}
		os.Setenv("VERIF_LOG", logMode)
	}
	if logMode == "trace" {
		rig.TraceLoggingToDiscard()
	}
	if f, ok := table[name]; ok {
		// Overall watchdog: a check that hangs (for instance because a change to Dirk leaks a lock on a path the
		// check drives sequentially) ends as inconclusive with a goroutine dump instead of hanging for ever.
		limit := 25 * time.Minute
		if *tier == "thorough" {
			limit = 8 * time.Hour
		}
		time.AfterFunc(limit, func() {
			buf := make([]byte, 1<<20)
			n := runtime.Stack(buf, true)
			fmt.Fprintf(os.Stderr, "%s\n", buf[:n])
			fmt.Printf("INCONCLUSIVE property=%s reason=the check did not finish within %s (goroutine dump on stderr)\n", name, limit)
			os.Exit(2)
		})
		os.Exit(f(cfg))
	}
	if f, ok := props.Children[name]; ok {
		os.Exit(f(cfg))
	}
	fmt.Fprintf(os.Stderr, "unknown workload %q\n", name)
	os.Exit(3)
}

func isFlagSet(fs *flag.FlagSet, name string) bool {
	set := false
	fs.Visit(func(f *flag.Flag) {
		if f.Name == name {
			set = true
		}
	})
	return set
}
