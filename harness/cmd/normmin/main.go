// normmin minimises a byte string on which golang.org/x/text/unicode/norm.Iter (as used by the keystore
// encryptor's legacy passphrase normalisation) panics.  Development aid for the C20 finding.
package main

import (
	"encoding/hex"
	"fmt"
	"os"
	"strings"

	"golang.org/x/text/unicode/norm"
)

func crashes(in []byte) (crashed bool) {
	defer func() {
		if recover() != nil {
			crashed = true
		}
	}()
	it := &norm.Iter{}
	it.InitString(norm.NFKD, string(in))
	for !it.Done() {
		it.Next()
	}
	return false
}

func main() {
	data, _ := os.ReadFile(os.Args[1])
	fs := strings.SplitN(strings.TrimSpace(string(data)), " ", 3)
	raw, _ := hex.DecodeString(fs[2])
	// field 1 (len-delimited), field 2 passphrase
	n := int(raw[1])
	rest := raw[2+n:]
	// rest[0]==0x12, varint length
	i := 1
	for rest[i]&0x80 != 0 {
		i++
	}
	pw := rest[i+1:]
	fmt.Println("passphrase bytes:", len(pw), "crashes:", crashes(pw))
	// ddmin
	cur := pw
	chunk := len(cur) / 2
	for chunk >= 1 {
		changed := false
		for s := 0; s+chunk <= len(cur); {
			cand := append(append([]byte{}, cur[:s]...), cur[s+chunk:]...)
			if crashes(cand) {
				cur = cand
				changed = true
			} else {
				s += chunk
			}
		}
		if !changed || chunk == 1 {
			chunk /= 2
		}
	}
	fmt.Printf("minimal: %d bytes %x %q\n", len(cur), cur, string(cur))
}
