package props

import (
	"bytes"
	"context"
	"errors"
	"fmt"
	"math/rand"
	"os"
	"path/filepath"
	"runtime"
	"strconv"
	"strings"
	"sync"
	"sync/atomic"
	"time"

	"verif/harness/evid"
	"verif/harness/rig"

	"github.com/attestantio/dirk/core"
	"github.com/attestantio/dirk/rules"
	"github.com/attestantio/dirk/services/locker"
	"github.com/attestantio/dirk/util/verifhook"
	e2wtypes "github.com/wealdtech/go-eth2-wallet-types/v2"
)

func goid() uint64 {
	var buf [64]byte
	n := runtime.Stack(buf[:], false)
	f := bytes.Fields(buf[:n])
	if len(f) < 2 {
		return 0
	}
	id, _ := strconv.ParseUint(string(f[1]), 10, 64)
	return id
}

// waitGraph is the shadow wait-for graph of the locker: goroutines wait for and hold resources
// (the gate taken by PreLock, and per-key locks).  A shadow hold is set after the real acquisition and
// cleared before the real release; a shadow wait is set before the real call.  A cycle found when a
// wait edge is added is therefore a real deadlock: every goroutine on it holds what the next one waits for.
type waitGraph struct {
	mu      sync.Mutex
	holder  map[string]uint64 // resource -> goroutine
	waiting map[uint64]string // goroutine -> resource
	onCycle func(desc string)

	events    atomic.Int64
	maxSize   int
	edges     map[string]bool // distinct "held -> wanted" lock-order edges seen
	yieldRand *rand.Rand
	yield     bool

	// directed steering
	roles map[uint64]*role
	cond  *sync.Cond
}

type role struct {
	name      string
	locks     int
	holdAfter int   // park after this many key locks (0 = never)
	until     *role // ... until this role has taken untilN locks
	untilN    int
	budget    time.Duration
	met       bool
	parked    chan struct{} // closed when the role reaches its hold point
}

func newWaitGraph(onCycle func(string)) *waitGraph {
	g := &waitGraph{holder: map[string]uint64{}, waiting: map[uint64]string{}, onCycle: onCycle, edges: map[string]bool{}, roles: map[uint64]*role{}}
	g.cond = sync.NewCond(&g.mu)
	return g
}

// wait registers "gid waits for res" and looks for a cycle.  Caller holds g.mu.
func (g *waitGraph) wait(gid uint64, res string) {
	g.waiting[gid] = res
	for r, h := range g.holder {
		if h == gid {
			g.edges[kshort(r)+"->"+kshort(res)] = true
		}
	}
	if n := len(g.waiting) + len(g.holder); n > g.maxSize {
		g.maxSize = n
	}
	// Follow holder/waiting edges from res.
	path := []string{fmt.Sprintf("g%d waits for %s", gid, kshort(res))}
	cur := res
	for steps := 0; steps < 1000; steps++ {
		h, held := g.holder[cur]
		if !held {
			return
		}
		if h == gid {
			path = append(path, fmt.Sprintf("held by g%d", h))
			g.onCycle(strings.Join(path, ", "))
			return
		}
		next, waits := g.waiting[h]
		if !waits {
			return
		}
		path = append(path, fmt.Sprintf("held by g%d which waits for %s", h, kshort(next)))
		cur = next
	}
}

func kshort(r string) string {
	if r == "gate" {
		return r
	}
	return fmt.Sprintf("key:%x", r[:4])
}

// monLocker interposes on the real locker.
type monLocker struct {
	locker.Service // embedded so that methods added to the interface later are passed through (unmonitored)
	inner          locker.Service
	g              *waitGraph
}

func (m *monLocker) maybeYield() {
	if m.g.yield {
		m.g.mu.Lock()
		x := m.g.yieldRand.Intn(8)
		m.g.mu.Unlock()
		switch x {
		case 0:
			runtime.Gosched()
		case 1:
			time.Sleep(time.Duration(20+x*30) * time.Microsecond)
		}
	}
}

func (m *monLocker) PreLock() {
	gid := goid()
	m.g.events.Add(1)
	m.g.mu.Lock()
	m.g.wait(gid, "gate")
	m.g.mu.Unlock()
	m.maybeYield()
	m.inner.PreLock()
	m.g.mu.Lock()
	delete(m.g.waiting, gid)
	m.g.holder["gate"] = gid
	m.g.mu.Unlock()
}

func (m *monLocker) PostLock() {
	m.g.events.Add(1)
	m.g.mu.Lock()
	delete(m.g.holder, "gate")
	m.g.mu.Unlock()
	m.inner.PostLock()
	m.maybeYield()
}

func (m *monLocker) Lock(key [48]byte) {
	gid := goid()
	res := string(key[:])
	m.g.events.Add(1)
	m.g.mu.Lock()
	m.g.wait(gid, res)
	m.g.mu.Unlock()
	m.maybeYield()
	m.inner.Lock(key)
	m.g.mu.Lock()
	delete(m.g.waiting, gid)
	m.g.holder[res] = gid
	// Directed steering: count this role's locks and park if the script says so.
	if r := m.g.roles[gid]; r != nil {
		r.locks++
		m.g.cond.Broadcast()
		if r.holdAfter == r.locks && r.until != nil {
			if r.parked != nil {
				close(r.parked)
			}
			deadline := time.Now().Add(r.budget)
			timer := time.AfterFunc(r.budget, func() { m.g.mu.Lock(); m.g.cond.Broadcast(); m.g.mu.Unlock() })
			for r.until.locks < r.untilN && time.Now().Before(deadline) {
				m.g.cond.Wait()
			}
			timer.Stop()
			r.met = r.until.locks >= r.untilN
		}
	}
	m.g.mu.Unlock()
}

func (m *monLocker) Unlock(key [48]byte) {
	m.g.events.Add(1)
	m.g.mu.Lock()
	delete(m.g.holder, string(key[:]))
	m.g.mu.Unlock()
	m.inner.Unlock(key)
}

// C15 is the parent: the workload runs in a child process because it drives towards deadlock.
func C15(cfg Cfg) int {
	run := evid.New("C15", cfg.Tier, cfg.Seed, "exploration")
	run.Rule = "liveness restated as (a) no wait-for cycle ever forms in a shadow graph kept by an interposer on the real locker and (b) bounded progress; workload: directed steering of pairs of batches over ordered selections of a 4-key set " +
		"(request A is parked after its i-th key lock until B has taken its j-th or a budget expires) for every position pair, plus sustained random load of 32 goroutines with injected yields; distinct = lock-order edges (held -> wanted) and steering schedules observed"
	run.Assume = []string{"a cycle in the shadow graph is a real deadlock (holds are recorded after acquisition and cleared before release)", "a finite run cannot decide liveness: zero progress for 30 s with blocked lock acquisitions is reported, a plain timeout is inconclusive"}
	bin := os.Getenv("VH_BIN")
	if bin == "" {
		bin = "/verif/.bin/vh"
	}
	res := runChild(cfg, bin, "C15child", filepath.Join(cfg.Work, "child"), 15*time.Minute, nil)
	n := absorbChild(run, res, "", "")
	run.Eval(run.Get("steered_schedules") + run.Get("stress_requests"))
	if res.TimedOut && n == 0 {
		run.Inconclusive("C15 child exceeded its overall watchdog")
	} else if res.Err != nil && n == 0 {
		run.Inconclusive(fmt.Sprintf("C15 child failed: %v: %s", res.Err, tail(res.Out, 1500)))
	}
	if run.Get("steered_schedules") == 0 || run.Get("stress_requests") == 0 {
		run.Inconclusive("child reported no schedules")
	}
	run.Sample(map[string]any{"steering": "A=[k0,k1,k2] B=[k2,k1] hold A after lock 1 until B has 1 lock (budget 3ms)", "stress": "32 goroutines, ordered key subsets of 6 keys, single/batch attestation, proposal, generic, multisign"})
	raceChild(run, cfg, "C15child", "race")
	// Requests by public key on accounts created at run time, with the real fetcher, during registrations.
	fres := runChild(cfg, bin, "C15fetch", filepath.Join(cfg.Work, "fetch"), 10*time.Minute, nil)
	fn := absorbChild(run, fres, "", "")
	run.Eval(run.Get("fetch_requests_completed"))
	if fres.TimedOut && fn == 0 {
		run.Inconclusive("C15fetch child exceeded its overall watchdog")
	} else if (fres.Err != nil && fn == 0) || run.Get("fetch_signatures") == 0 || run.Get("fetch_registrations") == 0 {
		run.Inconclusive(fmt.Sprintf("C15fetch child observed nothing: %v: %s", fres.Err, tail(fres.Out, 1500)))
	}
	raceChild(run, cfg, "C15fetch", "race")
	return run.Finish()
}

func init() { Children["C15child"] = c15Child }

func c15Child(cfg Cfg) int {
	raceMode := len(cfg.Args) > 0 && cfg.Args[0] == "race"
	run := evid.New("C15child", cfg.Tier, cfg.Seed, "exploration")
	r := cfg.Rand("c15")
	var viol atomic.Int64
	g := newWaitGraph(func(desc string) {
		if viol.Add(1) == 1 {
			fmt.Println("CHILD-VIOLATION wait-for cycle (deadlock) among signing requests: " + desc)
			os.Stdout.Sync()
			// The goroutines on the cycle are stuck for good: end the child.
			go func() { time.Sleep(50 * time.Millisecond); os.Exit(4) }()
		}
	})
	g.yieldRand = rand.New(rand.NewSource(cfg.Seed))
	env, err := NewEnv(run, cfg, "c15", rig.StackOpts{WrapLocker: func(l locker.Service) locker.Service { return &monLocker{Service: l, inner: l, g: g} }})
	if err != nil {
		fmt.Println("cannot build env:", err)
		return 3
	}
	// Keys 0..5 are the contended set; the rest only appear in the large batches of the load phase.
	env.FreshKeys(64)
	var completions atomic.Int64
	var outstanding atomic.Int64

	// Progress watchdog.
	stopWD := make(chan struct{})
	go func() {
		last, lastChange := int64(-1), time.Now()
		for {
			select {
			case <-stopWD:
				return
			case <-time.After(500 * time.Millisecond):
			}
			cur := g.events.Load() + completions.Load()
			if cur != last {
				last, lastChange = cur, time.Now()
				continue
			}
			if outstanding.Load() > 0 && time.Since(lastChange) > 10*time.Second {
				buf := make([]byte, 1<<20)
				n := runtime.Stack(buf, true)
				dump := string(buf[:n])
				if strings.Contains(dump, "locker/syncmap.(*Service).Lock") || strings.Contains(dump, "locker/syncmap.(*Service).PreLock") {
					fmt.Println("CHILD-VIOLATION no progress for 10s with requests blocked in lock acquisition")
				} else {
					fmt.Println("CHILD-INCONCLUSIVE no progress for 10s but no request is blocked in lock acquisition")
				}
				fmt.Println(dump)
				os.Exit(4)
			}
		}
	}()

	seq := uint64(1)
	nextEpoch := func() int8 { return 0 }
	_ = nextEpoch
	var cancelled atomic.Int64
	signBatchCtx := func(keys []int, ctx context.Context) {
		outstanding.Add(1)
		defer outstanding.Add(-1)
		defer func() {
			// What the server's recovery interceptor does with a panic in the serving goroutine.
			if p := recover(); p != nil {
				if s, ok := p.(string); !ok || !strings.HasPrefix(s, "injected panic") {
					panic(p)
				}
				completions.Add(1)
			}
		}()
		e := atomic.AddUint64(&seq, 1)
		cs := make([]*AttCase, len(keys))
		for i, k := range keys {
			cs[i] = mkAtt(env.Keys[k], env.Names[k], 0, 1, 0xaa)
			cs[i].Data.Source.Epoch, cs[i].Data.Target.Epoch = e, e+1
			cs[i].Ctx = ctx
		}
		if len(cs) == 1 {
			env.SignAtt(ViaService, cs[0])
		} else {
			env.SignAtts(ViaService, cs)
		}
		completions.Add(1)
	}
	signBatch := func(keys []int) { signBatchCtx(keys, nil) }
	// A request whose client gives up (deadline) while it is queued for or inside the locking phase.
	signBatchAbandoned := func(keys []int, after time.Duration) {
		ctx, cancel := context.WithTimeout(context.Background(), after)
		defer cancel()
		cancelled.Add(1)
		signBatchCtx(keys, ctx)
	}

	// (1) Directed steering.
	var sels [][]int
	for a := 0; a < 4; a++ {
		for b := 0; b < 4; b++ {
			if a == b {
				continue
			}
			sels = append(sels, []int{a, b})
			for c := 0; c < 4; c++ {
				if c != a && c != b {
					sels = append(sels, []int{a, b, c})
				}
			}
		}
	}
	type pair struct{ a, b []int }
	var pairs []pair
	for _, a := range sels {
		for _, b := range sels {
			pairs = append(pairs, pair{a, b})
		}
	}
	r.Shuffle(len(pairs), func(i, j int) { pairs[i], pairs[j] = pairs[j], pairs[i] })
	npairs := cfg.N(300, len(pairs))
	if raceMode {
		npairs = 40
	}
	budget := 3 * time.Millisecond
	schedules, met := 0, 0
	for _, p := range pairs[:npairs] {
		for i := 1; i <= len(p.a); i++ {
			for j := 1; j <= len(p.b); j++ {
				ra := &role{name: "A", holdAfter: i, untilN: j, budget: budget, parked: make(chan struct{})}
				rb := &role{name: "B"}
				ra.until = rb
				var wg sync.WaitGroup
				wg.Add(2)
				started := make(chan struct{})
				go func() {
					defer wg.Done()
					g.mu.Lock()
					g.roles[goid()] = ra
					g.mu.Unlock()
					close(started)
					signBatch(p.a)
				}()
				go func() {
					defer wg.Done()
					<-started
					// B sets off once A sits at its hold point (inside the locking phase).
					select {
					case <-ra.parked:
					case <-time.After(50 * time.Millisecond):
					}
					g.mu.Lock()
					g.roles[goid()] = rb
					g.mu.Unlock()
					if (i+j+schedules)%4 == 0 {
						// B's client gives up while B is queued behind A.
						signBatchAbandoned(p.b, time.Millisecond)
					} else {
						signBatch(p.b)
					}
				}()
				wg.Wait()
				g.mu.Lock()
				g.roles = map[uint64]*role{}
				if ra.met {
					met++
				}
				g.mu.Unlock()
				schedules++
			}
		}
		if viol.Load() > 0 {
			break
		}
	}
	fmt.Printf("STAT steered_schedules %d\n", schedules)
	fmt.Printf("STAT steering_rendezvous_met %d\n", met)

	// (2) Sustained random load.  One storage operation in 41 fails (injected at the storage hook): a request that
	// fails must still finish and release what it holds.
	var hookCalls, faults, panics atomic.Int64
	verifhook.Set(func(name string, _ [][]byte) error {
		if !strings.HasSuffix(name, ".pre") {
			return nil
		}
		n := hookCalls.Add(1)
		if name == "store.BatchStore.pre" && n%29 == 0 {
			// A panic while a batch's rules run (the batch path runs in the goroutine that serves the request,
			// where the server's recovery interceptor turns it into an error): whatever the request held must be
			// released all the same.  (Single requests run their rules in worker goroutines, where a panic is
			// fatal to any Go program; none is injected there.)
			panics.Add(1)
			panic("injected panic in the batch rules")
		}
		if n%41 == 0 {
			faults.Add(1)
			return errors.New("injected storage fault")
		}
		return nil
	})
	defer verifhook.Set(nil)
	g.yield = true
	total := cfg.N(5000, 100000)
	if raceMode {
		total = 1500
	}
	var issued atomic.Int64
	var wg sync.WaitGroup
	for w := 0; w < 32; w++ {
		wg.Add(1)
		wr := rand.New(rand.NewSource(cfg.Seed*77 + int64(w)))
		go func() {
			defer wg.Done()
			for issued.Add(1) <= int64(total) && viol.Load() == 0 {
				n := 1 + wr.Intn(4)
				keys := wr.Perm(6)[:n]
				if wr.Intn(25) == 0 {
					// A large batch over many keys in a random order (it shares the contended keys with everybody).
					n = 20 + wr.Intn(40)
					keys = wr.Perm(64)[:n]
				}
				switch wr.Intn(5) {
				case 0, 1, 2:
					if wr.Intn(8) == 0 {
						signBatchAbandoned(keys, time.Duration(wr.Intn(400))*time.Microsecond)
					} else {
						signBatch(keys)
					}
				case 3:
					outstanding.Add(1)
					e := atomic.AddUint64(&seq, 1)
					c := mkProp(env.Keys[keys[0]], env.Names[keys[0]], 0, 0xaa)
					c.Data.Slot = e
					env.SignProp(ViaService, c)
					completions.Add(1)
					outstanding.Add(-1)
				default:
					outstanding.Add(1)
					gs := make([]*GenCase, n)
					for i, k := range keys {
						gs[i] = wfGen(wr, env, k)
					}
					if n == 1 {
						env.SignGen(ViaService, gs[0])
					} else {
						env.SignGens(ViaService, gs)
					}
					completions.Add(1)
					outstanding.Add(-1)
				}
			}
		}()
	}
	wg.Wait()
	close(stopWD)
	g.mu.Lock()
	fmt.Printf("STAT stress_requests %d\n", total)
	fmt.Printf("STAT requests_abandoned_by_client %d\n", cancelled.Load())
	fmt.Printf("STAT completions %d\n", completions.Load())
	fmt.Printf("STAT injected_storage_faults %d\n", faults.Load())
	fmt.Printf("STAT injected_panics_in_batch_rules %d\n", panics.Load())
	fmt.Printf("STAT locker_events %d\n", g.events.Load())
	fmt.Printf("STAT max_wait_graph_size %d\n", g.maxSize)
	fmt.Printf("STAT distinct_lock_order_edges %d\n", len(g.edges))
	for e := range g.edges {
		fmt.Println("DISTINCT lock-order " + e)
	}
	g.mu.Unlock()
	fmt.Printf("RACE-CHILD operations %d\n", schedules*2+total)
	if viol.Load() > 0 {
		return 4
	}
	return 0
}

func init() { Children["C15fetch"] = c15Fetch }

// c15Fetch drives signing requests that address accounts created after start-up by public key (single and
// batched, overlapping selections in different orders) on a stack with the REAL account fetcher while further
// accounts are registered with it, as the completion of key generations does.  Every request must complete.
func c15Fetch(cfg Cfg) int {
	raceMode := len(cfg.Args) > 0 && cfg.Args[0] == "race"
	c, err := rig.NewCluster(rig.ClusterOpts{Dir: filepath.Join(cfg.Work, "cluster"), IDs: []uint64{1}, NDWallets: map[string][]string{"Wallet1": {"acct0", "acct1"}, "Empty": {}}})
	if err != nil {
		fmt.Println("cannot build cluster:", err)
		return 3
	}
	st := c.Inst[1].Stack
	bg := context.Background()
	const nrt = 6
	pubs := make([][]byte, nrt)
	wallets := make([]e2wtypes.Wallet, nrt)
	accounts := make([]e2wtypes.Account, nrt)
	for i := 0; i < nrt; i++ {
		name := fmt.Sprintf("Empty/rt%d", i)
		pub, _, err := st.Process.OnGenerate(bg, rig.Client1(), name, []byte("pass"), 1, 1)
		if err != nil {
			fmt.Println("cannot create account:", err)
			return 3
		}
		pubs[i] = pub
		if wallets[i], accounts[i], err = st.Fetcher.FetchAccount(bg, name); err != nil {
			fmt.Println("created account cannot be fetched:", err)
			return 3
		}
	}
	var completions, outstanding, signed, added atomic.Int64
	stop := make(chan struct{})
	stopWD := make(chan struct{})
	go func() {
		last, lastChange := int64(-1), time.Now()
		for {
			select {
			case <-stopWD:
				return
			case <-time.After(500 * time.Millisecond):
			}
			if cur := completions.Load(); cur != last {
				last, lastChange = cur, time.Now()
				continue
			}
			if outstanding.Load() > 0 && time.Since(lastChange) > 10*time.Second {
				buf := make([]byte, 1<<20)
				dump := string(buf[:runtime.Stack(buf, true)])
				where := "elsewhere"
				for _, f := range []string{"fetcher/mem.(*Service).FetchAccount", "fetcher/mem.(*Service).AddAccount", "locker/syncmap.(*Service)"} {
					if strings.Contains(dump, f) {
						where = "in " + f
						break
					}
				}
				fmt.Printf("CHILD-VIOLATION %d signing requests made no progress for 10s while accounts were being registered (blocked %s)\n", outstanding.Load(), where)
				fmt.Println(dump)
				os.Exit(4)
			}
		}
	}()
	var wg sync.WaitGroup
	var seq atomic.Uint64
	seq.Store(10)
	for w := 0; w < 12; w++ {
		wg.Add(1)
		wr := rand.New(rand.NewSource(cfg.Seed*131 + int64(w)))
		go func() {
			defer wg.Done()
			for {
				select {
				case <-stop:
					return
				default:
				}
				outstanding.Add(1)
				e := seq.Add(1)
				if wr.Intn(2) == 0 {
					res, sig := st.Signer.SignGeneric(bg, rig.Client1(), "", pubs[wr.Intn(nrt)], &rules.SignData{Data: Root32(byte(e)), Domain: Dom([]byte{9, 0, 0, 0}, 1)})
					if res == core.ResultSucceeded && len(sig) == 96 {
						signed.Add(1)
					}
				} else {
					n := 2 + wr.Intn(3)
					sel := wr.Perm(nrt)[:n]
					keys := make([][]byte, n)
					data := make([]*rules.SignBeaconAttestationData, n)
					for i, k := range sel {
						keys[i] = pubs[k]
						data[i] = &rules.SignBeaconAttestationData{Domain: Dom(DomainAttester, 0), Slot: e * 32, BeaconBlockRoot: Root32(1),
							Source: &rules.Checkpoint{Epoch: e, Root: Root32(2)}, Target: &rules.Checkpoint{Epoch: e + 1, Root: Root32(3)}}
					}
					ress, sigs := st.Signer.SignBeaconAttestations(bg, rig.Client1(), make([]string, n), keys, data)
					for i := range ress {
						if ress[i] == core.ResultSucceeded && i < len(sigs) && len(sigs[i]) == 96 {
							signed.Add(1)
						}
					}
				}
				outstanding.Add(-1)
				completions.Add(1)
			}
		}()
	}
	// Registrations: the accounts are registered again and again (what the end of a key generation does), at
	// irregular instants.
	for a := 0; a < 2; a++ {
		wg.Add(1)
		ar := rand.New(rand.NewSource(cfg.Seed*17 + int64(a)))
		go func() {
			defer wg.Done()
			for {
				select {
				case <-stop:
					return
				default:
				}
				i := ar.Intn(nrt)
				if err := st.Fetcher.AddAccount(bg, wallets[i], accounts[i]); err == nil {
					added.Add(1)
				}
				for y := ar.Intn(20); y > 0; y-- {
					runtime.Gosched()
				}
			}
		}()
	}
	secs := cfg.N(6, 60)
	if raceMode {
		secs = cfg.N(4, 20)
	}
	time.Sleep(time.Duration(secs) * time.Second)
	close(stop)
	done := make(chan struct{})
	go func() { wg.Wait(); close(done) }()
	select {
	case <-done:
	case <-time.After(40 * time.Second):
		// The watchdog above reports; give it time.
		time.Sleep(15 * time.Second)
	}
	close(stopWD)
	fmt.Printf("STAT fetch_requests_completed %d\nSTAT fetch_signatures %d\nSTAT fetch_registrations %d\n", completions.Load(), signed.Load(), added.Load())
	fmt.Printf("RACE-CHILD operations %d\n", completions.Load())
	fmt.Printf("DISTINCT by-key requests on run-time accounts during registrations: signed>0=%v\n", signed.Load() > 0)
	c.Close()
	return 0
}
