package props

import (
	"bytes"
	"context"
	"fmt"
	"math/rand"
	"regexp"
	"sort"
	"strings"
	"sync"
	"sync/atomic"

	"verif/harness/evid"
	"verif/harness/oracle"
	"verif/harness/rig"

	"github.com/attestantio/dirk/core"
	listerhandler "github.com/attestantio/dirk/services/api/grpc/handlers/lister"
	"github.com/attestantio/dirk/services/checker"
	staticchecker "github.com/attestantio/dirk/services/checker/static"
	standardlister "github.com/attestantio/dirk/services/lister/standard"
	pb "github.com/wealdtech/eth2-signer-api/pb/v1"
	e2wallet "github.com/wealdtech/go-eth2-wallet"
	e2wtypes "github.com/wealdtech/go-eth2-wallet-types/v2"
)

type c18Acct struct {
	wallet, name string
	pub          []byte // the key the instance holds (share key for distributed accounts)
	composite    []byte
}

// C18 checks listing soundness, completeness and key fidelity before and after dynamic account creation.
func C18(cfg Cfg) int {
	run := evid.New("C18", cfg.Tier, cfg.Seed, "exploration")
	c18Body(run, cfg, cfg.N(150, 5000), "c18")
	// The same workload (fewer tables, the concurrent listing phase included) under the race detector.
	raceChild(run, cfg, "C18race")
	return run.Finish()
}

func init() {
	Children["C18race"] = func(cfg Cfg) int {
		run := evid.New("C18race", cfg.Tier, cfg.Seed, "exploration")
		c18Body(run, cfg, cfg.N(30, 200), "c18race")
		fmt.Printf("RACE-CHILD operations %d\n", run.Get("accounts_returned"))
		if run.NumViolations() > 0 {
			fmt.Println("CHILD-VIOLATION the listing oracle failed under the race detector (see the parent's own run for details)")
		}
		return 0
	}
}

func c18Body(run *evid.Run, cfg Cfg, tables int, dirName string) int {
	run.Rule = "a real in-memory fetcher over 3 non-deterministic wallets x 4 accounts and a distributed wallet on a 2-instance cluster; permission tables from the C07 generator (per-account patterns included); request path lists of 1-5 paths mixing wallet-only, wallet/expression, unknown wallets, malformed paths and duplicates; the same again after accounts are created through Dirk (a single-participant generation and a 2-of-2 distributed generation); service and handler boundary; " +
		"soundness: every returned account is allowed 'Access account' by the reference model and lies in a requested wallet; completeness: every allowed account whose wallet is requested exactly and whose name fully matches the path's expression is returned; fidelity: names and public keys (composite and share key for distributed accounts) equal the harness's record; distinct = (phase, path-list shape, boundary, returned/expected counts) classes"
	run.Assume = []string{"completeness uses the narrowest reading of 'matches' (whole-name, case-sensitive match of the path's expression)"}
	r := cfg.Rand("c18")
	wallets := map[string][]string{"Wallet1": {"acct1", "acct2", "val", "b"}, "Wallet2": {"acct1", "acct10", "VAL", "bb"}, "Cold": {"acct2", "val", "b", "xb"}}
	c, err := rig.NewCluster(rig.ClusterOpts{Dir: cfg.Dir(dirName), IDs: []uint64{1, 2}, NDWallets: wallets})
	if err != nil {
		run.Inconclusive(err.Error())
		return 0
	}
	defer c.Close()
	inst := c.Inst[1]
	var accts []c18Acct
	for w, as := range wallets {
		for i, a := range as {
			accts = append(accts, c18Acct{wallet: w, name: a, pub: rig.DetKey("ndw-"+w, i).Pub})
		}
	}
	sort.Slice(accts, func(i, j int) bool { return accts[i].wallet+"/"+accts[i].name < accts[j].wallet+"/"+accts[j].name })
	for t := 0; t < tables && run.NumViolations() < 5; t++ {
		phase := "static"
		if t == tables/2 {
			// Create accounts through Dirk.
			pub, _, err := inst.Stack.Process.OnGenerate(context.Background(), rig.Client1(), "Wallet1/acct3", []byte("pass"), 1, 1)
			if err != nil {
				run.Inconclusive("single-participant generation failed: " + err.Error())
				break
			}
			accts = append(accts, c18Acct{wallet: "Wallet1", name: "acct3", pub: pub})
			cpub, _, err := inst.Stack.Process.OnGenerate(context.Background(), rig.Client1(), "D/val", []byte("pass"), 2, 2)
			if err != nil {
				run.Inconclusive("distributed generation failed: " + err.Error())
				break
			}
			v, err := dkgView(inst, "D/val")
			if err != nil {
				run.Inconclusive(err.Error())
				break
			}
			accts = append(accts, c18Acct{wallet: "D", name: "val", pub: v.SharePub, composite: cpub})
			run.Count("accounts_created_through_dirk", 2)
		}
		if t == tables*3/4 {
			// Further creations in wallets that already received one after start-up (earlier ones must stay listed).
			for _, nm := range []string{"Wallet1/acct4", "Wallet1/b2"} {
				// The second creation comes from a client that has gone away: its request context is already cancelled
				// when the handler runs.  Whatever the answer, an account that now exists in the wallet is visible.
				gctx, cancel := context.WithCancel(context.Background())
				if nm == "Wallet1/b2" {
					cancel()
				}
				pub, _, err := inst.Stack.Process.OnGenerate(gctx, rig.Client1(), nm, []byte("pass"), 1, 1)
				cancel()
				if err != nil && nm == "Wallet1/b2" {
					if w, werr := e2wallet.OpenWallet("Wallet1", e2wallet.WithStore(inst.Store)); werr == nil {
						if a, aerr := w.(e2wtypes.WalletAccountByNameProvider).AccountByName(context.Background(), "b2"); aerr == nil {
							pub, err = a.PublicKey().Marshal(), nil
						}
					}
					if err != nil {
						run.Count("abandoned_creations_refused", 1)
						continue
					}
				}
				if err != nil {
					run.Inconclusive("single-participant generation failed: " + err.Error())
					break
				}
				if nm == "Wallet1/b2" {
					run.Count("accounts_created_by_abandoned_requests", 1)
				}
				accts = append(accts, c18Acct{wallet: "Wallet1", name: strings.TrimPrefix(nm, "Wallet1/"), pub: pub})
			}
			if cpub, _, err := inst.Stack.Process.OnGenerate(context.Background(), rig.Client1(), "D/b", []byte("pass"), 2, 2); err == nil {
				if v, err := dkgView(inst, "D/b"); err == nil {
					accts = append(accts, c18Acct{wallet: "D", name: "b", pub: v.SharePub, composite: cpub})
				}
			}
			run.Count("accounts_created_through_dirk", 3)
		}
		if t >= tables/2 {
			phase = "after-creation"
		}
		g := genPermTable(r, []string{"client1", "client2"}, []string{"Wallet1", "Wallet2", "Cold", "D"}, []string{"acct1", "acct2", "val", "b", "acct3", "acct4", "b2"})
		chk, err := staticchecker.New(context.Background(), staticchecker.WithPermissions(g.Dirk))
		if err != nil {
			run.Count("tables_rejected", 1)
			continue
		}
		lst, err := standardlister.New(context.Background(), standardlister.WithFetcher(inst.Stack.Fetcher), standardlister.WithChecker(chk), standardlister.WithRuler(inst.Stack.Ruler))
		if err != nil {
			run.Inconclusive(err.Error())
			break
		}
		lh, err := listerhandler.New(context.Background(), listerhandler.WithLister(lst))
		if err != nil {
			run.Inconclusive(err.Error())
			break
		}
		var firstSample atomic.Bool
		if t > 0 {
			firstSample.Store(true)
		}
		oneQuery := func(r *rand.Rand) {
			paths, shape := c18Paths(r)
			client := []string{"client1", "client2", "stranger"}[r.Intn(3)]
			via := Via(r.Intn(2))
			type got struct {
				name      string
				pub, comp []byte
			}
			var gots []got
			if via == ViaService {
				res, as := lst.ListAccounts(context.Background(), &checker.Credentials{Client: client, RequestID: "r"}, paths)
				if res != core.ResultSucceeded {
					run.Violate(fmt.Sprintf("listing returned %s", res), paths)
					return
				}
				for _, a := range as {
					gt := got{name: a.(e2wtypes.AccountWalletProvider).Wallet().Name() + "/" + a.Name(), pub: a.PublicKey().Marshal()}
					if cp, ok := a.(e2wtypes.AccountCompositePublicKeyProvider); ok {
						gt.comp = cp.CompositePublicKey().Marshal()
					}
					gots = append(gots, gt)
				}
			} else {
				req := roundTrip(&pb.ListAccountsRequest{Paths: paths}, &pb.ListAccountsRequest{})
				res, err := lh.ListAccounts(rig.HandlerCtx(client, "10.0.0.1"), req)
				if err != nil || res.GetState() != pb.ResponseState_SUCCEEDED {
					run.Violate(fmt.Sprintf("listing handler returned %v / %v", res.GetState(), err), paths)
					return
				}
				res = roundTrip(res, &pb.ListAccountsResponse{})
				for _, a := range res.GetAccounts() {
					gots = append(gots, got{name: a.GetName(), pub: a.GetPublicKey()})
				}
				for _, a := range res.GetDistributedAccounts() {
					gots = append(gots, got{name: a.GetName(), pub: a.GetPublicKey(), comp: a.GetCompositePublicKey()})
				}
			}
			run.Eval(1)
			witness := map[string]any{"table": g.Model, "client": client, "paths": paths, "boundary": viaName(via), "phase": phase}
			returned := map[string]bool{}
			for _, gt := range gots {
				returned[gt.name] = true
				var rec *c18Acct
				for i := range accts {
					if accts[i].wallet+"/"+accts[i].name == gt.name {
						rec = &accts[i]
					}
				}
				if rec == nil {
					run.Violate("listing returned unknown account "+gt.name, witness)
					continue
				}
				if !g.Model.Allowed(client, rec.wallet, rec.name, "Access account") {
					run.Violate(fmt.Sprintf("listing returned %s although client %q may not access it", gt.name, client), witness)
				}
				inRequested := false
				for _, p := range paths {
					if w := strings.SplitN(p, "/", 2)[0]; w == rec.wallet {
						inRequested = true
					}
				}
				if !inRequested {
					run.Violate(fmt.Sprintf("listing returned %s which lies outside the requested wallets", gt.name), witness)
				}
				if !bytes.Equal(gt.pub, rec.pub) {
					run.Violate(fmt.Sprintf("listing reports public key %x for %s, the account's key is %x", gt.pub[:6], gt.name, rec.pub[:6]), witness)
				}
				if rec.composite != nil && via == ViaHandler && !bytes.Equal(gt.comp, rec.composite) {
					run.Violate(fmt.Sprintf("listing reports composite key %x for %s, generation returned %x", gt.comp, gt.name, rec.composite[:6]), witness)
				}
				if rec.composite != nil && via == ViaService && !bytes.Equal(gt.comp, rec.composite) {
					run.Violate(fmt.Sprintf("listed account %s carries composite key %x, generation returned %x", gt.name, gt.comp, rec.composite[:6]), witness)
				}
			}
			expected := 0
			for _, a := range accts {
				if !g.Model.Allowed(client, a.wallet, a.name, "Access account") {
					continue
				}
				must := false
				for _, p := range paths {
					parts := strings.SplitN(p, "/", 2)
					if parts[0] != a.wallet || parts[0] == "" {
						continue
					}
					if len(parts) == 1 || parts[1] == "" {
						must = true
					} else if re, err := regexp.Compile("^(?:" + parts[1] + ")$"); err == nil && re.MatchString(a.name) {
						// Only expressions Dirk itself can compile in its own anchored form oblige it.
						if _, err2 := regexp.Compile("^" + parts[1] + "$"); err2 == nil {
							must = true
						}
					}
				}
				if must {
					expected++
					if !returned[a.wallet+"/"+a.name] {
						run.Violate(fmt.Sprintf("listing omits %s/%s although client %q may access it and it matches a requested path", a.wallet, a.name, client), witness)
					}
				}
			}
			run.Count("accounts_returned", len(gots))
			run.Count("accounts_expected", expected)
			run.Distinct(fmt.Sprintf("%s %s %s returned=%d expected=%d", phase, shape, viaName(via), min(len(gots), 9), min(expected, 9)))
			if t == 0 && firstSample.CompareAndSwap(false, true) {
				run.Sample(witness)
			}
		}
		for q := 0; q < 12; q++ {
			oneQuery(r)
		}
		if t%25 == 3 {
			// The same kind of queries from several clients at the same time: each answer is judged on its own.
			var wg sync.WaitGroup
			for w := 0; w < 12; w++ {
				wg.Add(1)
				wr := rand.New(rand.NewSource(cfg.Seed*9173 + int64(t*10+w)))
				go func() {
					defer wg.Done()
					for q := 0; q < 2500; q++ {
						oneQuery(wr)
					}
				}()
			}
			wg.Wait()
			run.Count("concurrent_listing_rounds", 1)
		}
	}
	if run.Get("accounts_returned") == 0 || run.Get("accounts_created_through_dirk") == 0 {
		run.Inconclusive("nothing listed or no account created through Dirk")
	}
	return 0
}

func c18Paths(r *rand.Rand) ([]string, string) {
	n := 1 + r.Intn(5)
	var paths, shapes []string
	walletNames := []string{"Wallet1", "Wallet2", "Cold", "D"}
	exprs := []string{"acct1", "acct.*", "val", "VAL", "b", ".*b", "acct1|val", "acct[0-9]", "acct1.?", "(acct2|b)", "[", "a|",
		// every kind of regular-expression syntax, not only the common operators
		`acct\d`, `acct\d+`, `\x61cct1`, `val{1}`, `b{1,2}`, `acct[[:digit:]]`, `\w+`, `(?i)VAL`, `acct\d{1,2}`}
	for i := 0; i < n; i++ {
		switch r.Intn(10) {
		case 0, 1, 2:
			paths = append(paths, walletNames[r.Intn(len(walletNames))])
			shapes = append(shapes, "wallet")
		case 3, 4, 5, 6:
			paths = append(paths, walletNames[r.Intn(len(walletNames))]+"/"+exprs[r.Intn(len(exprs))])
			shapes = append(shapes, "expr")
		case 7:
			paths = append(paths, []string{"Nowhere", "wallet1", "Wallet10", "Wallet1x/acct1"}[r.Intn(4)])
			shapes = append(shapes, "unknown")
		case 8:
			paths = append(paths, []string{"", "/acct1", "Wallet1/", "/", "Wallet1//"}[r.Intn(5)])
			shapes = append(shapes, "malformed")
		default:
			if len(paths) > 0 {
				paths = append(paths, paths[r.Intn(len(paths))])
				shapes = append(shapes, "dup")
			} else {
				paths = append(paths, "Cold")
				shapes = append(shapes, "wallet")
			}
		}
	}
	return paths, strings.Join(shapes, ",")
}

var _ = oracle.PermTable{}
