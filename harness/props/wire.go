package props

import (
	"context"
	"fmt"
	"time"

	"verif/harness/evid"
	"verif/harness/oracle"
	"verif/harness/rig"

	"github.com/attestantio/dirk/core"
	pb "github.com/wealdtech/eth2-signer-api/pb/v1"
	"google.golang.org/grpc"
)

// ViaWire issues the request to the real daemon over TLS/gRPC.
const ViaWire Via = 2

// WireRig is a real daemon with a pool of real wallet accounts whose keys the harness knows.
type WireRig struct {
	D      *rig.Daemon
	CA     *rig.CA
	Conn   *grpc.ClientConn
	Signer pb.SignerClient
	Lister pb.ListerClient
	pool   int
	next   int
}

// NewWireRig prepares and starts a daemon with `accounts` accounts in Wallet1 (client1 may do everything).
// WireRigRace makes the next rigs use the daemon built with the race detector (set by checks whose wire slice is
// concurrent; their check IDs must be in ./check's needs_race_daemon list).
var WireRigRace bool

func NewWireRig(cfg Cfg, name string, accounts int, adminIPs []string) (*WireRig, error) {
	ca, err := rig.NewCA("verif-ca")
	if err != nil {
		return nil, err
	}
	names := make([]string, accounts)
	for i := range names {
		names[i] = fmt.Sprintf("w%d", i)
	}
	port := rig.FreePort("127.0.0.1")
	d, err := rig.PrepareDaemon(rig.DaemonOpts{Dir: cfg.Dir(name), ID: 1, IP: "127.0.0.1", Port: port, CA: ca, AdminIPs: adminIPs,
		Peers:       map[uint64]string{1: fmt.Sprintf("127.0.0.1:%d", port)},
		Permissions: map[string]map[string][]string{"client1": {"Wallet1": {"All"}}},
		NDWallets:   map[string][]string{"Wallet1": names}, Race: WireRigRace})
	if err != nil {
		return nil, err
	}
	if err := d.Start(); err != nil {
		return nil, fmt.Errorf("%v: %s", err, d.LogTail(500))
	}
	w := &WireRig{D: d, CA: ca, pool: accounts}
	if err := w.Dial(""); err != nil {
		d.Kill()
		return nil, err
	}
	return w, nil
}

// Dial (re)connects as client1, optionally from a given source address.
func (w *WireRig) Dial(srcIP string) error {
	if w.Conn != nil {
		w.Conn.Close()
	}
	crt, err := w.CA.Issue(rig.CertOpts{CN: "client1"})
	if err != nil {
		return err
	}
	conn, err := rig.Dial(w.D.Addr, rig.ClientTLS(w.CA, crt.TLS), srcIP)
	if err != nil {
		return err
	}
	w.Conn, w.Signer, w.Lister = conn, pb.NewSignerClient(conn), pb.NewListerClient(conn)
	return nil
}

// Close stops the daemon.
func (w *WireRig) Close() {
	if w.Conn != nil {
		w.Conn.Close()
	}
	w.D.Kill()
}

// Take hands out n unused accounts (keys and names).
func (w *WireRig) Take(n int) ([]*rig.Key, []string, bool) {
	if w.next+n > w.pool {
		return nil, nil, false
	}
	var ks []*rig.Key
	var ns []string
	for i := 0; i < n; i++ {
		ks = append(ks, rig.DetKey("ndw-Wallet1", w.next))
		ns = append(ns, fmt.Sprintf("Wallet1/w%d", w.next))
		w.next++
	}
	return ks, ns, true
}

func wctx() (context.Context, context.CancelFunc) {
	return context.WithTimeout(context.Background(), 20*time.Second)
}

func (e *Env) wireAtt(c *AttCase) (core.Result, []byte) {
	ctx, cancel := wctx()
	defer cancel()
	res, err := e.Wire.Signer.SignBeaconAttestation(ctx, pbAttReq(c))
	if err != nil {
		return core.ResultFailed, nil
	}
	return resFromPB(res.GetState()), res.GetSignature()
}

func (e *Env) wireAtts(cs []*AttCase) ([]core.Result, [][]byte) {
	req := &pb.SignBeaconAttestationsRequest{}
	for _, c := range cs {
		req.Requests = append(req.Requests, pbAttReq(c))
	}
	ctx, cancel := wctx()
	defer cancel()
	res, err := e.Wire.Signer.SignBeaconAttestations(ctx, req)
	if err != nil {
		return []core.Result{core.ResultFailed}, nil
	}
	return multiFromPB(res)
}

func multiFromPB(res *pb.MultisignResponse) ([]core.Result, [][]byte) {
	rs := make([]core.Result, len(res.GetResponses()))
	sigs := make([][]byte, len(res.GetResponses()))
	for i, r := range res.GetResponses() {
		rs[i], sigs[i] = resFromPB(r.GetState()), r.GetSignature()
	}
	return rs, sigs
}

func (e *Env) wireProp(c *PropCase) (core.Result, []byte) {
	req := &pb.SignBeaconProposalRequest{Domain: c.Data.Domain, Data: &pb.BeaconBlockHeader{
		Slot: c.Data.Slot, ProposerIndex: c.Data.ProposerIndex, ParentRoot: c.Data.ParentRoot, StateRoot: c.Data.StateRoot, BodyRoot: c.Data.BodyRoot}}
	if c.Addr != ByName {
		_, k := addrOf(c.Name, c.Key, c.Addr)
		req.Id = &pb.SignBeaconProposalRequest_PublicKey{PublicKey: k}
	} else {
		req.Id = &pb.SignBeaconProposalRequest_Account{Account: c.Name}
	}
	ctx, cancel := wctx()
	defer cancel()
	res, err := e.Wire.Signer.SignBeaconProposal(ctx, req)
	if err != nil {
		return core.ResultFailed, nil
	}
	return resFromPB(res.GetState()), res.GetSignature()
}

func (e *Env) wireGen(c *GenCase) (core.Result, []byte) {
	ctx, cancel := wctx()
	defer cancel()
	res, err := e.Wire.Signer.Sign(ctx, pbGenReq(c))
	if err != nil {
		return core.ResultFailed, nil
	}
	return resFromPB(res.GetState()), res.GetSignature()
}

func (e *Env) wireGens(cs []*GenCase) ([]core.Result, [][]byte) {
	req := &pb.MultisignRequest{}
	for _, c := range cs {
		req.Requests = append(req.Requests, pbGenReq(c))
	}
	ctx, cancel := wctx()
	defer cancel()
	res, err := e.Wire.Signer.Multisign(ctx, req)
	if err != nil {
		return []core.Result{core.ResultFailed}, nil
	}
	return multiFromPB(res)
}

// NewWireEnv wraps a wire rig in an Env so that the same generators and judges can be used.
func NewWireEnv(run *evid.Run, w *WireRig) *Env {
	return &Env{Run: run, Wire: w, Slash: oracle.NewSlash(), Client: "client1", pending: map[[80]byte]pendingReq{}, family: "wire"}
}

// WireKeys makes n unused daemon accounts the current key set; false when the pool is exhausted.
func (e *Env) WireKeys(n int) bool {
	ks, ns, ok := e.Wire.Take(n)
	if !ok {
		return false
	}
	e.Keys, e.Names = ks, ns
	return true
}
