package props

import (
	"context"
	"fmt"
	"path/filepath"

	"verif/harness/evid"
	"verif/harness/oracle"
	"verif/harness/rig"

	"github.com/attestantio/dirk/core"
	"github.com/attestantio/dirk/rules"
	memfetcher "github.com/attestantio/dirk/services/fetcher/mem"
	keystorev4 "github.com/wealdtech/go-eth2-wallet-encryptor-keystorev4"
	nd "github.com/wealdtech/go-eth2-wallet-nd/v2"
	filesystem "github.com/wealdtech/go-eth2-wallet-store-filesystem"
	e2wtypes "github.com/wealdtech/go-eth2-wallet-types/v2"
)

// c08TwoStores: an instance configured with two wallet stores (the configuration takes a list of them), each
// holding a wallet of the same name next to wallets of their own.  A request addressed by public key names exactly
// one account, whatever the stores call their wallets: if it is answered with a signature, the signature is by
// that key.  A request addressed by name may be answered by any account that carries the name.
func c08TwoStores(run *evid.Run, cfg Cfg) {
	ctx := context.Background()
	dir := cfg.Dir("c08-stores")
	enc := keystorev4.New()
	type acct struct {
		store, path string
		key         *rig.Key
	}
	var accts []acct
	var stores []e2wtypes.Store
	layout := map[string]map[string][]string{
		"A": {"Shared": {"a", "b"}, "OnlyA": {"a"}},
		"B": {"Shared": {"a", "c"}, "OnlyB": {"a"}},
	}
	for _, sn := range []string{"A", "B"} {
		st := filesystem.New(filesystem.WithLocation(filepath.Join(dir, "store-"+sn)))
		stores = append(stores, st)
		for _, wn := range []string{"Shared", "Only" + sn} {
			w, err := nd.CreateWallet(ctx, wn, st, enc)
			if err != nil {
				run.Inconclusive("two-store slice: " + err.Error())
				return
			}
			if err := w.(e2wtypes.WalletLocker).Unlock(ctx, nil); err != nil {
				run.Inconclusive("two-store slice: " + err.Error())
				return
			}
			for i, an := range layout[sn][wn] {
				k := rig.DetKey("c08stores-"+sn+"-"+wn, i)
				if _, err := w.(e2wtypes.WalletAccountImporter).ImportAccount(ctx, an, k.Priv.Marshal(), []byte("pass")); err != nil {
					run.Inconclusive("two-store slice: " + err.Error())
					return
				}
				accts = append(accts, acct{sn, wn + "/" + an, k})
			}
		}
	}
	signedBy := func(root [32]byte, sig []byte) string {
		for _, a := range accts {
			if ok, _ := oracle.VerifySig(a.key.Pub, root[:], sig); ok {
				return "store " + a.store + " " + a.path
			}
		}
		return "no known account"
	}
	epoch := uint64(10)
	for build := 0; build < cfg.N(6, 40) && run.NumViolations() < 3; build++ {
		order := stores
		if build%2 == 1 {
			order = []e2wtypes.Store{stores[1], stores[0]}
		}
		f, err := memfetcher.New(ctx, memfetcher.WithStores(order), memfetcher.WithEncryptor(enc))
		if err != nil {
			run.Inconclusive("two-store slice: fetcher: " + err.Error())
			return
		}
		st, err := rig.NewStack(rig.StackOpts{StorageDir: filepath.Join(dir, fmt.Sprintf("rules-%d", build)), Fetcher: f, Passphrases: []string{"pass"}})
		if err != nil {
			run.Inconclusive("two-store slice: stack: " + err.Error())
			return
		}
		judge := func(what string, a acct, byKey bool, root [32]byte, res core.Result, sig []byte) {
			run.Eval(1)
			run.Count("two_store_requests", 1)
			if res != core.ResultSucceeded || len(sig) == 0 {
				run.Distinct(fmt.Sprintf("two stores: %s byKey=%v shared-name=%v -> %s", what, byKey, a.path == "Shared/a", res))
				return
			}
			run.Count("two_store_signatures", 1)
			by := signedBy(root, sig)
			okKey, _ := oracle.VerifySig(a.key.Pub, root[:], sig)
			run.Distinct(fmt.Sprintf("two stores: %s byKey=%v shared-name=%v -> signed, by the addressed key=%v", what, byKey, a.path == "Shared/a", okKey))
			if byKey && !okKey {
				run.Violate(fmt.Sprintf("%s addressed by the public key of %s (store %s) came back SUCCEEDED with a signature by %s: two stores hold a wallet of the same name", what, a.path, a.store, by),
					map[string]any{"addressed_public_key": fmt.Sprintf("%x", a.key.Pub), "addressed": "store " + a.store + " " + a.path, "signed_by": by, "stores_in_order": build%2 == 0})
			}
			if !byKey && !okKey {
				// By name: any account that carries this name may answer.
				named := false
				for _, o := range accts {
					if o.path == a.path {
						if ok, _ := oracle.VerifySig(o.key.Pub, root[:], sig); ok {
							named = true
						}
					}
				}
				if !named {
					run.Violate(fmt.Sprintf("%s addressed by name %s was signed by %s", what, a.path, by), map[string]any{"addressed": a.path, "signed_by": by})
				}
			}
		}
		epoch += 2
		for _, a := range accts {
			for _, byKey := range []bool{true, false} {
				name, key := a.path, []byte(nil)
				if byKey {
					name, key = "", a.key.Pub
				}
				d := &rules.SignData{Domain: Dom([]byte{9, 0, 0, 0}, byte(build)), Data: Root32(byte(60 + build))}
				res, sig := st.Signer.SignGeneric(ctx, rig.Client1(), name, key, d)
				judge("generic request", a, byKey, oracle.SigningRoot(b32(d.Data), d.Domain), res, sig)
			}
		}
		// One attestation batch addressing every account by key.
		names := make([]string, len(accts))
		keys := make([][]byte, len(accts))
		data := make([]*rules.SignBeaconAttestationData, len(accts))
		for i, a := range accts {
			keys[i] = a.key.Pub
			data[i] = &rules.SignBeaconAttestationData{Domain: Dom(DomainAttester, 0), Slot: epoch * 32, CommitteeIndex: uint64(i), BeaconBlockRoot: Root32(7),
				Source: &rules.Checkpoint{Epoch: epoch, Root: Root32(1)}, Target: &rules.Checkpoint{Epoch: epoch + 1, Root: Root32(2)}}
		}
		res, sigs := st.Signer.SignBeaconAttestations(ctx, rig.Client1(), names, keys, data)
		for i, a := range accts {
			if i < len(res) && i < len(sigs) {
				root := oracle.SigningRoot(oracle.AttestationDataRoot(epoch*32, uint64(i), Root32(7), epoch, Root32(1), epoch+1, Root32(2)), Dom(DomainAttester, 0))
				judge("batch attestation entry", a, true, root, res[i], sigs[i])
			}
		}
		st.Close()
	}
	if run.Get("two_store_signatures") == 0 {
		run.Inconclusive("two-store slice obtained no signature")
	}
}
