package props

import (
	"context"
	"crypto/sha256"
	"crypto/tls"
	"crypto/x509"
	"encoding/pem"
	"fmt"
	"os"
	"path/filepath"
	"sort"
	"strings"
	"sync"
	"sync/atomic"
	"time"

	"verif/harness/evid"
	"verif/harness/oracle"
	"verif/harness/rig"

	pb "github.com/wealdtech/eth2-signer-api/pb/v1"
	"google.golang.org/grpc"
)

type c19Caller struct {
	Kind      string
	TLS       *tls.Config // nil = plaintext
	Accepted  bool        // presents a certificate issued by the configured authority
	Identity  string      // the subject common name of that certificate
	AcctIndex int
}

// c19Outcome is what one call yielded.
type c19Outcome struct {
	Method    string
	Err       string
	State     string
	Signature bool
	Accounts  int
	PubKey    bool
	Share     bool
}

func (o c19Outcome) served() bool {
	return o.Signature || o.Accounts > 0 || o.PubKey || o.Share || o.State == "SUCCEEDED"
}

func c19CallAll(conn *grpc.ClientConn, acct string, pub []byte, epoch uint64, genName string) []c19Outcome {
	var out []c19Outcome
	ctxf := func() (context.Context, context.CancelFunc) {
		return context.WithTimeout(context.Background(), 5*time.Second)
	}
	errs := func(err error) string {
		if err == nil {
			return ""
		}
		s := err.Error()
		if len(s) > 120 {
			s = s[:120]
		}
		return s
	}
	signer, lister, am, wm, dkg := pb.NewSignerClient(conn), pb.NewListerClient(conn), pb.NewAccountManagerClient(conn), pb.NewWalletManagerClient(conn), pb.NewDKGClient(conn)
	genDom := Dom([]byte{9, 0, 0, 0}, 1)
	sr := func(m string, r *pb.SignResponse, err error) {
		o := c19Outcome{Method: m, Err: errs(err)}
		if err == nil {
			o.State, o.Signature = r.GetState().String(), len(r.GetSignature()) > 0
		}
		out = append(out, o)
	}
	mr := func(m string, r *pb.MultisignResponse, err error) {
		o := c19Outcome{Method: m, Err: errs(err)}
		if err == nil {
			for _, x := range r.GetResponses() {
				if len(x.GetSignature()) > 0 {
					o.Signature = true
				}
				if x.GetState() == pb.ResponseState_SUCCEEDED {
					o.State = "SUCCEEDED"
				}
			}
			if o.State == "" && len(r.GetResponses()) > 0 {
				o.State = r.GetResponses()[0].GetState().String()
			}
		}
		out = append(out, o)
	}
	ctx, cancel := ctxf()
	r1, err := signer.Sign(ctx, &pb.SignRequest{Id: &pb.SignRequest_Account{Account: acct}, Data: Root32(1), Domain: genDom})
	cancel()
	sr("Signer.Sign", r1, err)
	ctx, cancel = ctxf()
	r2, err := signer.Multisign(ctx, &pb.MultisignRequest{Requests: []*pb.SignRequest{{Id: &pb.SignRequest_PublicKey{PublicKey: pub}, Data: Root32(2), Domain: genDom}}})
	cancel()
	mr("Signer.Multisign", r2, err)
	att := func(e uint64) *pb.SignBeaconAttestationRequest {
		return &pb.SignBeaconAttestationRequest{Id: &pb.SignBeaconAttestationRequest_Account{Account: acct}, Domain: Dom(DomainAttester, 0),
			Data: &pb.AttestationData{Slot: e * 32, CommitteeIndex: 1, BeaconBlockRoot: Root32(3), Source: &pb.Checkpoint{Epoch: e, Root: Root32(1)}, Target: &pb.Checkpoint{Epoch: e + 1, Root: Root32(2)}}}
	}
	ctx, cancel = ctxf()
	r3, err := signer.SignBeaconAttestation(ctx, att(epoch))
	cancel()
	sr("Signer.SignBeaconAttestation", r3, err)
	ctx, cancel = ctxf()
	r4, err := signer.SignBeaconAttestations(ctx, &pb.SignBeaconAttestationsRequest{Requests: []*pb.SignBeaconAttestationRequest{att(epoch + 2)}})
	cancel()
	mr("Signer.SignBeaconAttestations", r4, err)
	ctx, cancel = ctxf()
	r5, err := signer.SignBeaconProposal(ctx, &pb.SignBeaconProposalRequest{Id: &pb.SignBeaconProposalRequest_Account{Account: acct}, Domain: Dom(DomainProposer, 0),
		Data: &pb.BeaconBlockHeader{Slot: epoch, ProposerIndex: 1, ParentRoot: Root32(3), StateRoot: Root32(4), BodyRoot: Root32(5)}})
	cancel()
	sr("Signer.SignBeaconProposal", r5, err)
	ctx, cancel = ctxf()
	r6, err := lister.ListAccounts(ctx, &pb.ListAccountsRequest{Paths: []string{"Wallet1", "Wallet2", "D"}})
	cancel()
	o6 := c19Outcome{Method: "Lister.ListAccounts", Err: errs(err)}
	if err == nil {
		o6.State, o6.Accounts = r6.GetState().String(), len(r6.GetAccounts())+len(r6.GetDistributedAccounts())
		if o6.Accounts == 0 {
			o6.State = "EMPTY" // an empty successful listing carries no account information
		}
	}
	out = append(out, o6)
	ctx, cancel = ctxf()
	r7, err := am.Lock(ctx, &pb.LockAccountRequest{Account: acct})
	cancel()
	o := c19Outcome{Method: "AccountManager.Lock", Err: errs(err)}
	if err == nil {
		o.State = r7.GetState().String()
	}
	out = append(out, o)
	ctx, cancel = ctxf()
	r8, err := am.Unlock(ctx, &pb.UnlockAccountRequest{Account: acct, Passphrase: []byte("pass")})
	cancel()
	o = c19Outcome{Method: "AccountManager.Unlock", Err: errs(err)}
	if err == nil {
		o.State = r8.GetState().String()
	}
	out = append(out, o)
	ctx, cancel = ctxf()
	r9, err := am.Generate(ctx, &pb.GenerateRequest{Account: genName, Passphrase: []byte("pass"), Participants: 1, SigningThreshold: 1})
	cancel()
	o = c19Outcome{Method: "AccountManager.Generate", Err: errs(err)}
	if err == nil {
		o.State, o.PubKey = r9.GetState().String(), len(r9.GetPublicKey()) > 0
	}
	out = append(out, o)
	ctx, cancel = ctxf()
	r10, err := wm.Lock(ctx, &pb.LockWalletRequest{Wallet: "Wallet1"})
	cancel()
	o = c19Outcome{Method: "WalletManager.Lock", Err: errs(err)}
	if err == nil {
		o.State = r10.GetState().String()
	}
	out = append(out, o)
	ctx, cancel = ctxf()
	r11, err := wm.Unlock(ctx, &pb.UnlockWalletRequest{Wallet: "Wallet1", Passphrase: []byte("pass")})
	cancel()
	o = c19Outcome{Method: "WalletManager.Unlock", Err: errs(err)}
	if err == nil {
		o.State = r11.GetState().String()
	}
	out = append(out, o)
	// Key generation protocol.
	dacct := "D/" + strings.ReplaceAll(genName, "/", "-")
	ctx, cancel = ctxf()
	_, err = dkg.Prepare(ctx, &pb.PrepareRequest{Account: dacct, Passphrase: []byte("pass"), Threshold: 1, Participants: []*pb.Endpoint{{Id: 1, Name: "127.0.0.1", Port: 1}}})
	cancel()
	o = c19Outcome{Method: "DKG.Prepare", Err: errs(err)}
	if err == nil {
		o.State = "SUCCEEDED"
	}
	out = append(out, o)
	ctx, cancel = ctxf()
	_, err = dkg.Execute(ctx, &pb.ExecuteRequest{Account: dacct})
	cancel()
	o = c19Outcome{Method: "DKG.Execute", Err: errs(err)}
	if err == nil {
		o.State = "SUCCEEDED"
	}
	out = append(out, o)
	sec, vv := fakeContribution(1, 1)
	ctx, cancel = ctxf()
	r14, err := dkg.Contribute(ctx, &pb.ContributeRequest{Account: dacct, Secret: sec, VerificationVector: vv})
	cancel()
	o = c19Outcome{Method: "DKG.Contribute", Err: errs(err)}
	if err == nil {
		o.State, o.Share = "SUCCEEDED", len(r14.GetSecret()) > 0
	}
	out = append(out, o)
	ctx, cancel = ctxf()
	r15, err := dkg.Commit(ctx, &pb.CommitRequest{Account: dacct, ConfirmationData: Root32(1)})
	cancel()
	o = c19Outcome{Method: "DKG.Commit", Err: errs(err)}
	if err == nil {
		o.State, o.PubKey = "SUCCEEDED", len(r15.GetPublicKey()) > 0
	}
	out = append(out, o)
	ctx, cancel = ctxf()
	_, err = dkg.Abort(ctx, &pb.AbortRequest{Account: dacct})
	cancel()
	o = c19Outcome{Method: "DKG.Abort", Err: errs(err)}
	if err == nil {
		o.State = "SUCCEEDED"
	}
	out = append(out, o)
	return out
}

// C19 calls every RPC of every registered service on a real daemon with every kind of caller credential.
func C19(cfg Cfg) int {
	run := evid.New("C19", cfg.Tier, cfg.Seed, "exploration")
	run.Rule = "a real dirk daemon (child process, TLS material generated at run time) in two configurations (CA configured; CA entry absent); all 16 methods of the 5 registered gRPC services, each with a request that succeeds for a permitted caller, x caller credentials {plaintext, TLS without client certificate, self-signed certificate with a permitted name, certificate from another authority with a permitted name and with a peer's name, valid certificate of a permitted client, valid certificate of an unpermitted client, valid certificate whose DNS SAN (not CN) names a permitted client, valid unpermitted leaf followed by an unverified certificate carrying a permitted name, expired / not-yet-valid certificate (from the authority, self-signed, from another authority), server-only certificate}; client certificates are force-sent (GetClientCertificate) so that the server, not the client library, decides; " +
		"callers without a certificate from the configured authority must obtain no signature, account data, key or SUCCEEDED state and leave slashing state and wallets untouched; accepted callers must get exactly what the permission table gives their certificate's subject common name; distinct = (configuration, caller kind, method, outcome) cells"
	run.Assume = []string{"loopback TCP stands in for the network", "state effects are read from the daemon's storage and wallet directories after it has stopped"}
	ca, err := rig.NewCA("verif-ca")
	if err != nil {
		run.Inconclusive(err.Error())
		return run.Finish()
	}
	rogue, _ := rig.NewCA("rogue-ca")
	for ci, noCA := range []bool{false, true} {
		c19Config(run, cfg, ca, rogue, ci, noCA)
		if run.NumViolations() > 5 {
			break
		}
	}
	return run.Finish()
}

func c19Config(run *evid.Run, cfg Cfg, ca, rogue *rig.CA, ci int, noCA bool) {
	dir := cfg.Dir(fmt.Sprintf("c19-%d", ci))
	port := rig.FreePort("127.0.0.1")
	accounts := []string{}
	for i := 0; i < 20; i++ {
		accounts = append(accounts, fmt.Sprintf("acct%d", i))
	}
	// The host's trust store (what SystemCertPool returns inside the daemon) holds the OTHER authority: a daemon
	// that trusts anything besides the configured authority would accept its certificates.
	_ = os.MkdirAll(dir, 0o755)
	trustFile, trustDir := filepath.Join(dir, "host-trust.pem"), filepath.Join(dir, "host-trust.d")
	_ = os.WriteFile(trustFile, rogue.CertPEM, 0o644)
	_ = os.MkdirAll(trustDir, 0o755)
	d, err := rig.PrepareDaemon(rig.DaemonOpts{Dir: dir, ID: 1, IP: "127.0.0.1", Port: port, CA: ca, NoCAInCfg: noCA,
		Env:         []string{"SSL_CERT_FILE=" + trustFile, "SSL_CERT_DIR=" + trustDir},
		Peers:       map[uint64]string{1: fmt.Sprintf("127.0.0.1:%d", port)},
		Permissions: map[string]map[string][]string{"client1": {"Wallet1": {"All"}, "D": {"All"}}, "client2": {"Wallet2": {"All"}}},
		NDWallets:   map[string][]string{"Wallet1": accounts, "Wallet2": {"other"}}, DistWallets: []string{"D"},
		// The CA-configured daemon is the build with the race detector: its concurrent phase serves several identities at once.
		Race: !noCA,
		// The server certificate file of the CA-configured daemon is a bundle that also carries the OTHER authority's certificate.
		ServerChainExtra: map[bool][]byte{false: rogue.CertPEM, true: nil}[noCA]})
	if err != nil {
		run.Inconclusive("cannot prepare daemon: " + err.Error())
		return
	}
	if err := d.Start(); err != nil {
		run.Inconclusive("cannot start daemon: " + err.Error() + ": " + d.LogTail(600))
		return
	}
	defer d.Kill()
	issue := func(c *rig.CA, o rig.CertOpts) tls.Certificate {
		crt, err := c.Issue(o)
		if err != nil {
			panic(err)
		}
		return crt.TLS
	}
	permitted := issue(ca, rig.CertOpts{CN: "client1"})
	unpermitted := issue(ca, rig.CertOpts{CN: "client9"})
	sanOnly := issue(ca, rig.CertOpts{CN: "client9", DNS: []string{"client1"}})
	selfSigned := issue(nil, rig.CertOpts{CN: "client1", SelfSigned: true})
	rogueClient := issue(rogue, rig.CertOpts{CN: "client1"})
	roguePeer := issue(rogue, rig.CertOpts{CN: "127.0.0.1", IPs: []string{"127.0.0.1"}})
	chained := unpermitted
	chained.Certificate = append(append([][]byte{}, unpermitted.Certificate...), selfSigned.Certificate[0])
	selfSignedPeer := issue(nil, rig.CertOpts{CN: "127.0.0.1", SelfSigned: true})
	chainedPeer := unpermitted
	chainedPeer.Certificate = append(append([][]byte{}, unpermitted.Certificate...), selfSignedPeer.Certificate[0])
	expired := issue(ca, rig.CertOpts{CN: "client1", NotBefore: time.Now().Add(-48 * time.Hour), NotAfter: time.Now().Add(-24 * time.Hour)})
	serverOnly := issue(ca, rig.CertOpts{CN: "client1", ServerOnly: true})
	notYet := issue(ca, rig.CertOpts{CN: "client1", NotBefore: time.Now().Add(24 * time.Hour), NotAfter: time.Now().Add(48 * time.Hour)})
	selfSignedExpired := issue(nil, rig.CertOpts{CN: "client1", SelfSigned: true, NotBefore: time.Now().Add(-48 * time.Hour), NotAfter: time.Now().Add(-24 * time.Hour)})
	selfSignedNotYet := issue(nil, rig.CertOpts{CN: "client1", SelfSigned: true, NotBefore: time.Now().Add(24 * time.Hour), NotAfter: time.Now().Add(48 * time.Hour)})
	rogueExpired := issue(rogue, rig.CertOpts{CN: "client1", NotBefore: time.Now().Add(-48 * time.Hour), NotAfter: time.Now().Add(-24 * time.Hour)})
	// Valid certificates of the configured authority whose subject names are NEAR a permitted name: another
	// letter case, surrounding space, a prefix and an extension of it.  The identity is the subject name itself.
	nearNames := []string{"Client1", "CLIENT1", "client1 ", "client"}
	callers := []c19Caller{
		{Kind: "plaintext"},
		{Kind: "tls-no-client-cert", TLS: rig.ClientTLS(ca)},
		{Kind: "self-signed-permitted-name", TLS: rig.ClientTLS(ca, selfSigned)},
		{Kind: "other-authority-permitted-name", TLS: rig.ClientTLS(ca, rogueClient)},
		{Kind: "other-authority-peer-name", TLS: rig.ClientTLS(ca, roguePeer)},
		{Kind: "valid-permitted", TLS: rig.ClientTLS(ca, permitted), Accepted: true, Identity: "client1"},
		{Kind: "valid-unpermitted", TLS: rig.ClientTLS(ca, unpermitted), Accepted: true, Identity: "client9"},
		{Kind: "valid-san-names-permitted", TLS: rig.ClientTLS(ca, sanOnly), Accepted: true, Identity: "client9"},
		{Kind: "valid-unpermitted-plus-unverified-permitted-in-chain", TLS: rig.ClientTLS(ca, chained), Accepted: true, Identity: "client9"},
		{Kind: "valid-unpermitted-plus-unverified-peer-name-in-chain", TLS: rig.ClientTLS(ca, chainedPeer), Accepted: true, Identity: "client9"},
		{Kind: "expired-permitted", TLS: rig.ClientTLS(ca, expired)},
		{Kind: "server-only-usage-permitted", TLS: rig.ClientTLS(ca, serverOnly)},
		{Kind: "not-yet-valid-permitted", TLS: rig.ClientTLS(ca, notYet)},
		{Kind: "self-signed-expired-permitted-name", TLS: rig.ClientTLS(ca, selfSignedExpired)},
		{Kind: "self-signed-not-yet-valid-permitted-name", TLS: rig.ClientTLS(ca, selfSignedNotYet)},
		{Kind: "other-authority-expired-permitted-name", TLS: rig.ClientTLS(ca, rogueExpired)},
	}
	for _, n := range nearNames {
		callers = append(callers, c19Caller{Kind: fmt.Sprintf("valid-unpermitted-near-name-%q", n), TLS: rig.ClientTLS(ca, issue(ca, rig.CertOpts{CN: n})), Accepted: true, Identity: n})
	}
	signedAccts := map[int]bool{}
	for k := range callers {
		c := &callers[k]
		c.AcctIndex = k
		conn, err := rig.Dial(d.Addr, c.TLS, "")
		if err != nil {
			run.Inconclusive("dial: " + err.Error())
			continue
		}
		acct := fmt.Sprintf("Wallet1/acct%d", k)
		pub := rig.DetKey("ndw-Wallet1", k).Pub
		genName := fmt.Sprintf("Wallet1/gen-%d-%d", ci, k)
		outs := c19CallAll(conn, acct, pub, uint64(100+10*k), genName)
		conn.Close()
		accepted := c.Accepted && !noCA
		for _, o := range outs {
			run.Eval(1)
			cfgName := "ca-configured"
			if noCA {
				cfgName = "ca-absent"
			}
			run.Distinct(fmt.Sprintf("%s %s %s served=%v state=%s err=%v", cfgName, c.Kind, o.Method, o.served(), o.State, o.Err != ""))
			witness := map[string]any{"configuration": cfgName, "caller": c.Kind, "outcome": o}
			if !accepted {
				if o.served() {
					run.Violate(fmt.Sprintf("%s served a caller presenting %s (%s): %+v", o.Method, c.Kind, cfgName, o), witness)
				}
				run.Count("unauthenticated_calls_checked", 1)
				continue
			}
			// Accepted callers: the identity is the subject common name.
			dkgMethod := strings.HasPrefix(o.Method, "DKG.")
			allowed := c.Identity == "client1" && !dkgMethod
			if o.served() && !allowed {
				run.Violate(fmt.Sprintf("%s served %s whose certificate subject is %q (not permitted / not a peer): %+v", o.Method, c.Kind, c.Identity, o), witness)
			}
			if allowed && !o.served() && o.Method != "AccountManager.Lock" && o.Method != "WalletManager.Lock" {
				run.Violate(fmt.Sprintf("%s refused the permitted client %q: %+v", o.Method, c.Identity, o), witness)
			}
			if allowed && o.served() {
				run.Count("permitted_calls_served", 1)
				signedAccts[k] = true
			}
			run.Count("authenticated_calls_checked", 1)
		}
		if k == 3 && ci == 0 {
			run.Sample(map[string]any{"caller": c.Kind, "outcomes": outs[:4]})
		}
	}
	// The identity belongs to the connection it was verified on: after a permitted client disconnects, an
	// unpermitted client connecting from the very same source address and port must still be itself.
	if !noCA {
		srcPort := rig.FreePort("127.0.0.1")
		reused := 0
		for round := 0; round < 3; round++ {
			connA, err := rig.DialFromPort(d.Addr, rig.ClientTLS(ca, permitted), "127.0.0.1", srcPort)
			if err != nil {
				break
			}
			ctx, cancel := context.WithTimeout(context.Background(), 5*time.Second)
			ra, erra := pb.NewListerClient(connA).ListAccounts(ctx, &pb.ListAccountsRequest{Paths: []string{"Wallet1"}})
			cancel()
			connA.Close()
			if erra != nil || len(ra.GetAccounts()) == 0 {
				break
			}
			time.Sleep(50 * time.Millisecond)
			connB, err := rig.DialFromPort(d.Addr, rig.ClientTLS(ca, unpermitted), "127.0.0.1", srcPort)
			if err != nil {
				break
			}
			ctx, cancel = context.WithTimeout(context.Background(), 5*time.Second)
			rb, errb := pb.NewListerClient(connB).ListAccounts(ctx, &pb.ListAccountsRequest{Paths: []string{"Wallet1"}})
			rs, errs := pb.NewSignerClient(connB).Sign(ctx, &pb.SignRequest{Id: &pb.SignRequest_Account{Account: "Wallet1/acct13"}, Data: Root32(1), Domain: Dom([]byte{9, 0, 0, 0}, 1)})
			cancel()
			connB.Close()
			if errb != nil && errs != nil {
				continue // could not connect from the same port this time
			}
			reused++
			run.Eval(1)
			if len(rb.GetAccounts()) > 0 || len(rs.GetSignature()) > 0 {
				run.Violate(fmt.Sprintf("an unpermitted client connecting from the source port a permitted client had just used was served (accounts listed: %d, signature: %v)", len(rb.GetAccounts()), len(rs.GetSignature()) > 0), nil)
			}
			time.Sleep(50 * time.Millisecond)
		}
		run.Count("source_port_reuse_rounds", reused)
		run.Distinct(fmt.Sprintf("source port reused by another client: %v", reused > 0))
	}
	c19ForgedTickets(run, d, map[bool]string{false: "ca-configured", true: "ca-entry-absent"}[noCA])
	if !noCA {
		c19Concurrent(run, cfg, d, ca)
		daemonRaceReports(run, d, "callers with different certificates served at the same time")
	}
	// The daemon must still be alive and serve the permitted client.
	if !d.Alive() {
		run.Violate("daemon died during the credential matrix: "+d.LogTail(800), nil)
		return
	}
	// A legitimate peer can still run the protocol for a name a rogue caller tried (nothing lingered).
	if !noCA {
		conn, err := rig.Dial(d.Addr, rig.ClientTLS(ca, d.Server.TLS), "")
		if err == nil {
			dk := pb.NewDKGClient(conn)
			for _, k := range []int{0, 3, 4} {
				dacct := "D/" + strings.ReplaceAll(fmt.Sprintf("Wallet1/gen-%d-%d", ci, k), "/", "-")
				ctx, cancel := context.WithTimeout(context.Background(), 5*time.Second)
				_, err := dk.Prepare(ctx, &pb.PrepareRequest{Account: dacct, Passphrase: []byte("pass"), Threshold: 1, Participants: []*pb.Endpoint{{Id: 1, Name: "127.0.0.1", Port: uint32(d.Opts.Port)}}})
				cancel()
				if err != nil {
					run.Violate(fmt.Sprintf("a genuine peer cannot prepare %s after unauthenticated attempts on that name: %v", dacct, err), nil)
				} else {
					run.Count("peer_prepare_after_rogue_attempts", 1)
					ctx, cancel = context.WithTimeout(context.Background(), 5*time.Second)
					_, _ = dk.Abort(ctx, &pb.AbortRequest{Account: dacct})
					cancel()
				}
			}
			conn.Close()
		}
	}
	d.Stop()
	// State effects: only the permitted client's accounts may have slashing records; only its generation may exist.
	svc, err := rig.OpenRules(dir)
	if err != nil {
		run.Inconclusive("cannot open the daemon's storage after it stopped: " + err.Error())
		return
	}
	exp, _ := exportTrips(svc)
	_ = svc.Close(context.Background())
	for k := range callers {
		_, has := exp[rig.DetKey("ndw-Wallet1", k).Pub48()]
		if has && !signedAccts[k] {
			run.Violate(fmt.Sprintf("slashing-protection state exists for Wallet1/acct%d although its only caller (%s) was never served", k, callers[k].Kind), nil)
		}
	}
	entries, _ := filepath.Glob(filepath.Join(dir, "wallets", "*", "*"))
	_ = entries
	created := 0
	_ = filepath.Walk(filepath.Join(dir, "wallets"), func(path string, info os.FileInfo, err error) error {
		if err == nil && !info.IsDir() {
			created++
		}
		return nil
	})
	run.Count("wallet_store_files", created)
	_ = oracle.PermTable{}
}

// c19ForgedTickets: a caller without any certificate from the configured authority tries TLS session resumption
// with a ticket it minted itself.  It learns the server's certificate by starting a handshake, derives candidate
// ticket keys from that public material (and a few constants), lets a server of its own - trusting a made-up
// authority - issue a ticket for a made-up "client1" certificate under each candidate key, and offers that ticket to
// the daemon.  Being served on such a connection means the daemon took an identity from a ticket anyone can mint.
func c19ForgedTickets(run *evid.Run, d *rig.Daemon, label string) {
	// 1. The server's certificate, as any network peer sees it.
	var leaf []byte
	probe, err := tls.Dial("tcp", d.Addr, &tls.Config{InsecureSkipVerify: true, MinVersion: tls.VersionTLS13,
		VerifyPeerCertificate: func(raw [][]byte, _ [][]*x509.Certificate) error {
			if len(raw) > 0 {
				leaf = append([]byte{}, raw[0]...)
			}
			return nil
		}})
	if err == nil {
		_ = probe.Close()
	}
	if leaf == nil {
		run.Inconclusive("forged tickets: could not obtain the server certificate")
		return
	}
	cert, err := x509.ParseCertificate(leaf)
	if err != nil {
		run.Inconclusive("forged tickets: " + err.Error())
		return
	}
	sum := func(parts ...[]byte) [32]byte {
		h := sha256.New()
		for _, p := range parts {
			h.Write(p)
		}
		var k [32]byte
		copy(k[:], h.Sum(nil))
		return k
	}
	pemLeaf := pem.EncodeToMemory(&pem.Block{Type: "CERTIFICATE", Bytes: leaf})
	var first32 [32]byte
	copy(first32[:], leaf)
	keys := map[string][32]byte{
		"all-zero key":                        {},
		"first 32 bytes of the certificate":   first32,
		"sha256(certificate DER)":             sum(leaf),
		"sha256(certificate PEM)":             sum(pemLeaf),
		"sha256(public key info)":             sum(cert.RawSubjectPublicKeyInfo),
		"sha256(subject common name)":         sum([]byte(cert.Subject.CommonName)),
		"sha256(serial number)":               sum(cert.SerialNumber.Bytes()),
		"sha256(signature)":                   sum(cert.Signature),
		"sha256(\"dirk\" + certificate DER)":  sum([]byte("dirk"), leaf),
		"sha256(product label + certificate)": sum([]byte("dirk session ticket key"), leaf),
		"sha256(listen address)":              sum([]byte(d.Addr)),
	}
	// 2. A made-up authority and a made-up client1.
	fakeCA, err := rig.NewCA("made-up-authority")
	if err != nil {
		run.Inconclusive(err.Error())
		return
	}
	fakeClient, _ := fakeCA.Issue(rig.CertOpts{CN: "client1"})
	fakeServer, _ := fakeCA.Issue(rig.CertOpts{CN: "127.0.0.1", IPs: []string{"127.0.0.1"}})
	pool := x509.NewCertPool()
	pool.AppendCertsFromPEM(fakeCA.CertPEM)
	names := make([]string, 0, len(keys))
	for n := range keys {
		names = append(names, n)
	}
	sort.Strings(names)
	for _, name := range names {
		key := keys[name]
		ln, err := tls.Listen("tcp", "127.0.0.1:0", &tls.Config{Certificates: []tls.Certificate{fakeServer.TLS}, ClientAuth: tls.RequireAndVerifyClientCert,
			ClientCAs: pool, MinVersion: tls.VersionTLS13, SessionTicketKey: key, NextProtos: []string{"h2"}})
		if err != nil {
			run.Inconclusive(err.Error())
			return
		}
		go func() {
			c, err := ln.Accept()
			if err != nil {
				return
			}
			_, _ = c.Write([]byte("x")) // completes the handshake and sends the tickets
			time.Sleep(200 * time.Millisecond)
			_ = c.Close()
		}()
		cache := tls.NewLRUClientSessionCache(4)
		fc := fakeClient.TLS
		ccfg := &tls.Config{InsecureSkipVerify: true, MinVersion: tls.VersionTLS13, ClientSessionCache: cache, ServerName: "dirk.target", NextProtos: []string{"h2"},
			GetClientCertificate: func(*tls.CertificateRequestInfo) (*tls.Certificate, error) { return &fc, nil }}
		mint, err := tls.Dial("tcp", ln.Addr().String(), ccfg)
		if err == nil {
			buf := make([]byte, 1)
			_, _ = mint.Read(buf) // tickets arrive with the first application data
			_ = mint.Close()
		}
		_ = ln.Close()
		if _, ok := cache.Get("dirk.target"); !ok {
			run.Count("forged_ticket_not_minted", 1)
			continue
		}
		// 3. Offer it to the daemon.
		conn, err := rig.Dial(d.Addr, ccfg, "")
		if err != nil {
			continue
		}
		ctx, cancel := context.WithTimeout(context.Background(), 5*time.Second)
		lres, lerr := pb.NewListerClient(conn).ListAccounts(ctx, &pb.ListAccountsRequest{Paths: []string{"Wallet1"}})
		sres, serr := pb.NewSignerClient(conn).Sign(ctx, &pb.SignRequest{Id: &pb.SignRequest_Account{Account: "Wallet1/acct19"}, Data: Root32(1), Domain: Dom([]byte{9, 0, 0, 0}, 1)})
		cancel()
		_ = conn.Close()
		run.Eval(1)
		run.Count("forged_ticket_attempts", 1)
		served := (lerr == nil && len(lres.GetAccounts()) > 0) || (serr == nil && len(sres.GetSignature()) > 0)
		run.Distinct(fmt.Sprintf("forged session ticket under %s (%s) -> served=%v", name, label, served))
		if served {
			run.Violate(fmt.Sprintf("a caller with no certificate from the configured authority was served (accounts listed: %d, signature: %v) after resuming a TLS session with a ticket it minted itself under the key %s (%s)",
				len(lres.GetAccounts()), len(sres.GetSignature()) > 0, name, label), map[string]any{"ticket_key": name, "config": label})
		}
	}
}

// c19Concurrent: callers with different certificates of the configured authority are served at the same time.  The
// identity used for each decision must be the subject of the certificate on THAT connection: while client1 (allowed
// on Wallet1) signs, client2 (allowed on Wallet2 only) and client9 (allowed nowhere) ask for the same things on their
// own connections and must never obtain a signature or an account of Wallet1.
func c19Concurrent(run *evid.Run, cfg Cfg, d *rig.Daemon, ca *rig.CA) {
	type who struct {
		cn      string
		allowed bool
	}
	callers := []who{{"client1", true}, {"client2", false}, {"client9", false}, {"client1", true}, {"client2", false}, {"client9", false}}
	stop := make(chan struct{})
	var wg sync.WaitGroup
	var served, refused, leaked atomic.Int64
	for i, w := range callers {
		crt, err := ca.Issue(rig.CertOpts{CN: w.cn})
		if err != nil {
			run.Inconclusive(err.Error())
			return
		}
		conn, err := rig.Dial(d.Addr, rig.ClientTLS(ca, crt.TLS), "")
		if err != nil {
			run.Inconclusive(err.Error())
			return
		}
		defer conn.Close()
		wg.Add(1)
		go func(i int, w who) {
			defer wg.Done()
			signer, lister := pb.NewSignerClient(conn), pb.NewListerClient(conn)
			for k := 0; ; k++ {
				select {
				case <-stop:
					return
				default:
				}
				ctx, cancel := context.WithTimeout(context.Background(), 10*time.Second)
				sres, serr := signer.Sign(ctx, &pb.SignRequest{Id: &pb.SignRequest_Account{Account: "Wallet1/acct17"}, Data: Root32(byte(k)), Domain: Dom([]byte{9, 0, 0, 0}, byte(i))})
				var lres *pb.ListAccountsResponse
				var lerr error
				if k%4 == 0 {
					lres, lerr = lister.ListAccounts(ctx, &pb.ListAccountsRequest{Paths: []string{"Wallet1"}})
				}
				cancel()
				got := (serr == nil && len(sres.GetSignature()) > 0) || (lerr == nil && lres != nil && len(lres.GetAccounts()) > 0)
				switch {
				case w.allowed && got:
					served.Add(1)
				case !w.allowed && got:
					if leaked.Add(1) == 1 {
						run.Violate(fmt.Sprintf("while other clients were being served, %s (no permission on Wallet1) obtained a signature or accounts of Wallet1 on its own connection: the decision used another caller's identity", w.cn),
							map[string]any{"caller": w.cn, "signature": len(sres.GetSignature()) > 0, "accounts": len(lres.GetAccounts())})
					}
				default:
					refused.Add(1)
				}
			}
		}(i, w)
	}
	time.Sleep(time.Duration(cfg.N(2500, 20000)) * time.Millisecond)
	close(stop)
	wg.Wait()
	run.Eval(int(served.Load() + refused.Load() + leaked.Load()))
	run.Count("concurrent_identity_requests_served_to_permitted", int(served.Load()))
	run.Count("concurrent_identity_requests_refused", int(refused.Load()))
	run.Distinct(fmt.Sprintf("concurrent callers with different certificates: permitted served=%v others refused=%v", served.Load() > 0, refused.Load() > 0))
	if served.Load() == 0 || refused.Load() == 0 {
		run.Inconclusive("concurrent identity phase observed nothing")
	}
}
