package props

import (
	"bytes"
	"context"
	"fmt"
	"sync"

	"verif/harness/evid"
	"verif/harness/oracle"
	"verif/harness/rig"

	"github.com/herumi/bls-eth-go-binary/bls"
	pb "github.com/wealdtech/eth2-signer-api/pb/v1"
)

// manualGen drives a generation message by message through the receiver handlers, as peer `as`.
type manualGen struct {
	c       *rig.Cluster
	ids     []uint64
	account string
	t       uint32
	as      string
}

func (g *manualGen) prepare(id uint64) error {
	req := &pb.PrepareRequest{Account: g.account, Passphrase: []byte("pass"), Threshold: g.t}
	for _, p := range g.ids {
		e := g.c.Endpoint(p)
		req.Participants = append(req.Participants, &pb.Endpoint{Id: e.ID, Name: e.Name, Port: e.Port})
	}
	_, err := g.c.Inst[id].Stack.ReceiverH.Prepare(rig.PeerCtx(g.as), req)
	return err
}

func (g *manualGen) execute(id uint64) error {
	_, err := g.c.Inst[id].Stack.ReceiverH.Execute(rig.PeerCtx(g.as), &pb.ExecuteRequest{Account: g.account})
	return err
}

func (g *manualGen) commit(id uint64, data []byte) ([]byte, []byte, error) {
	res, err := g.c.Inst[id].Stack.ReceiverH.Commit(rig.PeerCtx(g.as), &pb.CommitRequest{Account: g.account, ConfirmationData: data})
	if err != nil {
		return nil, nil, err
	}
	return res.GetPublicKey(), res.GetConfirmationSignature(), nil
}

// finish drives the generation from the given state to completion and returns the composite key.
func (g *manualGen) finish(state string) ([]byte, error) {
	switch state {
	case "none":
		for _, id := range g.ids {
			if err := g.prepare(id); err != nil {
				return nil, fmt.Errorf("prepare on %d: %w", id, err)
			}
		}
		fallthrough
	case "prepared":
		if err := g.execute(g.ids[0]); err != nil {
			return nil, fmt.Errorf("execute on %d: %w", g.ids[0], err)
		}
		fallthrough
	case "mid-execute":
		for _, id := range g.ids[1:] {
			if err := g.execute(id); err != nil {
				return nil, fmt.Errorf("execute on %d: %w", id, err)
			}
		}
	}
	var pub []byte
	for _, id := range g.ids {
		pk, sig, err := g.commit(id, Root32(7))
		if err != nil {
			return nil, fmt.Errorf("commit on %d: %w", id, err)
		}
		if len(sig) == 0 {
			return nil, fmt.Errorf("commit on %d returned no confirmation signature", id)
		}
		if pub != nil && !bytes.Equal(pub, pk) {
			return nil, fmt.Errorf("participants disagree on the composite key")
		}
		pub = pk
	}
	return pub, nil
}

// reach drives a fresh generation up to the given state.
func (g *manualGen) reach(state string) error {
	if state == "none" {
		return nil
	}
	for _, id := range g.ids {
		if err := g.prepare(id); err != nil {
			return err
		}
	}
	if state == "prepared" {
		return nil
	}
	if err := g.execute(g.ids[0]); err != nil {
		return err
	}
	if state == "mid-execute" {
		return nil
	}
	for _, id := range g.ids[1:] {
		if err := g.execute(id); err != nil {
			return err
		}
	}
	return nil
}

// C16 checks that protocol messages are honoured only from peers and that contribution replies carry
// only the caller's own share.
func C16(cfg Cfg) int {
	run := evid.New("C16", cfg.Tier, cfg.Seed, "exploration")
	run.Rule = "clusters of 3 and 4 real instances; for each of the five protocol messages x session state {none, prepared, mid-execute, all-contributed} x caller kind {ordinary client with All permissions, unknown name, empty name, no identity, near-miss of a peer name (suffix, case, host:port)} the non-peer call is made on a participant with hostile content (other threshold/participants, genuine foreign contribution, abort) and the legitimate generation is then driven to completion by a peer; " +
		"the rogue call must be refused and the generation must still complete with the ORIGINAL parameters and pass the consistency checks; every contribution request and reply observed on the routing sender must carry a share valid for exactly its addressee and for no other participant; distinct = (message, state, caller kind, cluster size) cells and (sender, recipient) pairs"
	run.Assume = []string{"the caller name is injected into the context the way the ClientInfo interceptor does (the wire slice in C19 uses real certificates)"}
	sizes := []int{3, 4}
	if cfg.Thorough() {
		sizes = []int{3, 4, 5}
	}
	seq := 0
	for _, n := range sizes {
		ids := idSet("small", n)
		if n == 4 {
			ids = idSet("sparse", n)
		}
		c, err := rig.NewCluster(rig.ClusterOpts{Dir: cfg.Dir(fmt.Sprintf("c16-%d", n)), IDs: ids})
		if err != nil {
			run.Inconclusive(err.Error())
			return run.Finish()
		}
		// Share ownership monitor on every contribution exchange.
		var mu sync.Mutex
		pairs := map[string]bool{}
		c.Observe = func(m *rig.Msg, rs []byte, rv [][]byte, err error) {
			if err != nil {
				return
			}
			check := func(secret []byte, vvec [][]byte, owner uint64, what string) {
				var sk bls.SecretKey
				if sk.Deserialize(secret) != nil {
					return
				}
				pubShare := sk.GetPublicKey().Serialize()
				for _, id := range ids {
					ev, err := oracle.EvalVVec(vvec, id)
					if err != nil {
						continue
					}
					if id == owner && !bytes.Equal(ev, pubShare) {
						run.Violate(fmt.Sprintf("%s between %d and %d is not the share of its addressee %d", what, m.From, m.To, owner), nil)
					}
					if id != owner && bytes.Equal(ev, pubShare) {
						run.Violate(fmt.Sprintf("%s between %d and %d is the share of participant %d, not of its addressee %d", what, m.From, m.To, id, owner), nil)
					}
				}
			}
			check(m.Secret, m.VVec, m.To, "contribution sent")
			check(rs, rv, m.From, "contribution reply")
			mu.Lock()
			pairs[fmt.Sprintf("n=%d %d->%d", n, m.From, m.To)] = true
			mu.Unlock()
			run.Count("share_ownership_checks", 2)
		}
		peerName := c.Endpoint(ids[0]).Name
		callers := map[string]string{"full-permission-client": "client1", "unknown-name": "mallory", "empty-name": "", "near-miss-suffix": peerName + "0",
			"near-miss-case": "HOST" + peerName[4:], "near-miss-hostport": fmt.Sprintf("%s:%d", peerName, c.Endpoint(ids[0]).Port)}
		t := uint32(n/2 + 1)
		for _, msg := range []string{"prepare", "execute", "contribute", "commit", "abort"} {
			for _, state := range []string{"none", "prepared", "mid-execute", "all-contributed"} {
				for kind, caller := range callers {
					if !cfg.Thorough() && (len(kind)+len(msg)+len(state)+n)%3 != 0 && kind != "full-permission-client" {
						continue
					}
					seq++
					g := &manualGen{c: c, ids: ids, account: fmt.Sprintf("D/c16-%d-%d", n, seq), t: t, as: peerName}
					if err := g.reach(state); err != nil {
						run.Inconclusive(fmt.Sprintf("cannot reach state %s: %v", state, err))
						continue
					}
					target := c.Inst[ids[seq%n]]
					ctx := rig.PeerCtx(caller)
					if kind == "empty-name" && seq%2 == 0 {
						ctx = context.Background() // no identity at all
						kind = "no-identity"
					}
					var rerr error
					switch msg {
					case "prepare":
						req := &pb.PrepareRequest{Account: g.account, Passphrase: []byte("other"), Threshold: uint32(n)}
						for _, p := range ids {
							e := c.Endpoint(p)
							req.Participants = append(req.Participants, &pb.Endpoint{Id: e.ID, Name: e.Name, Port: e.Port})
						}
						_, rerr = target.Stack.ReceiverH.Prepare(ctx, req)
					case "execute":
						_, rerr = target.Stack.ReceiverH.Execute(ctx, &pb.ExecuteRequest{Account: g.account})
					case "contribute":
						sec, vv := fakeContribution(int(t), target.ID)
						var res *pb.ContributeResponse
						res, rerr = target.Stack.ReceiverH.Contribute(ctx, &pb.ContributeRequest{Account: g.account, Secret: sec, VerificationVector: vv})
						if rerr == nil && len(res.GetSecret()) > 0 {
							run.Violate(fmt.Sprintf("a %s obtained a secret share through Contribute in state %s", kind, state), nil)
						}
					case "commit":
						var res *pb.CommitResponse
						res, rerr = target.Stack.ReceiverH.Commit(ctx, &pb.CommitRequest{Account: g.account, ConfirmationData: Root32(1)})
						if rerr == nil && len(res.GetPublicKey()) > 0 {
							run.Violate(fmt.Sprintf("a %s made participant %d commit the generation in state %s", kind, target.ID, state), nil)
						}
					case "abort":
						_, rerr = target.Stack.ReceiverH.Abort(ctx, &pb.AbortRequest{Account: g.account})
					}
					run.Eval(1)
					run.Distinct(fmt.Sprintf("n=%d %s in state %s from %s -> refused=%v", n, msg, state, kind, rerr != nil))
					witness := map[string]any{"n": n, "message": msg, "state": state, "caller": caller, "caller_kind": kind, "target": target.ID}
					if rerr == nil {
						run.Violate(fmt.Sprintf("%s from a %s (%q) was accepted by participant %d in state %s", msg, kind, caller, target.ID, state), witness)
					}
					// The rogue call must have changed nothing: the legitimate generation completes with the original parameters.
					pub, err := g.finish(state)
					if err != nil {
						run.Violate(fmt.Sprintf("after a refused %s from a %s in state %s the legitimate generation no longer completes: %v", msg, kind, state, err), witness)
						continue
					}
					for _, p := range oracle.CheckDKGViews(dkgHolders(c, g.account), pub, t, ids) {
						run.Violate(fmt.Sprintf("after a refused %s from a %s in state %s: %s", msg, kind, state, p), witness)
					}
					run.Count("generations_completed_after_rogue_call", 1)
					if seq == 1 {
						run.Sample(witness)
					}
				}
			}
		}
		mu.Lock()
		for p := range pairs {
			run.Distinct("share-exchange " + p)
		}
		mu.Unlock()
		c.Close()
	}
	c16Outsider(run, cfg)
	c16Concurrent(run, cfg)
	if run.Get("share_ownership_checks") == 0 || run.Get("generations_completed_after_rogue_call") == 0 {
		run.Inconclusive("nothing was observed")
	}
	return run.Finish()
}

// c16Outsider: more peers are configured than take part in a generation.  A configured peer that is NOT a
// participant sends a well-formed contribution to each participant in each session state; whatever the reply is,
// it must not carry the share computed for another identifier.  (Peers are trusted not to disturb a generation,
// so completion afterwards is not required here.)
func c16Outsider(run *evid.Run, cfg Cfg) {
	ids := idSet("small", 5)
	c, err := rig.NewCluster(rig.ClusterOpts{Dir: cfg.Dir("c16-outsider"), IDs: ids})
	if err != nil {
		run.Inconclusive(err.Error())
		return
	}
	defer c.Close()
	seq := 0
	subsets := [][]int{{0, 1, 2}, {2, 3, 4}, {0, 2, 4}, {1, 3}, {0, 1, 2, 3}}
	for si, sub := range subsets {
		if !cfg.Thorough() && si >= 3 {
			break
		}
		var part, out []uint64
		in := map[int]bool{}
		for _, i := range sub {
			part = append(part, ids[i])
			in[i] = true
		}
		for i, id := range ids {
			if !in[i] {
				out = append(out, id)
			}
		}
		t := uint32(len(part)/2 + 1)
		for _, state := range []string{"prepared", "mid-execute", "all-contributed"} {
			for _, x := range out {
				seq++
				g := &manualGen{c: c, ids: part, account: fmt.Sprintf("D/c16o-%d", seq), t: t, as: c.Endpoint(part[0]).Name}
				if err := g.reach(state); err != nil {
					run.Inconclusive(fmt.Sprintf("cannot reach state %s: %v", state, err))
					continue
				}
				for _, p := range part {
					sec, vv := fakeContribution(int(t), p)
					res, rerr := c.Inst[p].Stack.ReceiverH.Contribute(rig.PeerCtx(c.Endpoint(x).Name), &pb.ContributeRequest{Account: g.account, Secret: sec, VerificationVector: vv})
					run.Eval(1)
					run.Count("outsider_contributions", 1)
					run.Distinct(fmt.Sprintf("outsider peer -> participant in state %s, %d-of-%d: refused=%v share-bytes=%d", state, t, len(part), rerr != nil, len(res.GetSecret())))
					if rerr != nil || len(res.GetSecret()) == 0 {
						continue
					}
					var sk bls.SecretKey
					if sk.Deserialize(res.GetSecret()) != nil || sk.IsZero() {
						continue
					}
					pubShare := sk.GetPublicKey().Serialize()
					for _, id := range ids {
						if id == x {
							continue
						}
						if ev, err := oracle.EvalVVec(res.GetVerificationVector(), id); err == nil && bytes.Equal(ev, pubShare) {
							run.Violate(fmt.Sprintf("peer %d, which takes no part in the generation, was handed by participant %d the secret share computed for identifier %d (state %s)", x, p, id, state),
								map[string]any{"participants": part, "caller": x, "target": p, "state": state, "share_of": id})
						}
					}
				}
				// Clear the session on every participant.
				for _, p := range part {
					_, _ = c.Inst[p].Stack.ReceiverH.Abort(rig.PeerCtx(g.as), &pb.AbortRequest{Account: g.account})
				}
			}
		}
	}
}

// c16Concurrent has two participants deliver their contributions to the third at the same moment (a start barrier
// releases both), through the receiver handler as the gRPC server would call it: each reply must carry the share
// computed for the identifier of the caller it answers, never the other caller's.
func c16Concurrent(run *evid.Run, cfg Cfg) {
	ids := idSet("small", 3)
	c, err := rig.NewCluster(rig.ClusterOpts{Dir: cfg.Dir("c16-concurrent"), IDs: ids})
	if err != nil {
		run.Inconclusive(err.Error())
		return
	}
	defer c.Close()
	rounds := 30
	if cfg.Thorough() {
		rounds = 300
	}
	type reply struct {
		caller uint64
		res    *pb.ContributeResponse
		err    error
	}
	for round := 0; round < rounds && run.NumViolations() <= 5; round++ {
		target := ids[round%3]
		var callers []uint64
		for _, id := range ids {
			if id != target {
				callers = append(callers, id)
			}
		}
		g := &manualGen{c: c, ids: ids, account: fmt.Sprintf("D/c16c-%d", round), t: 2, as: c.Endpoint(ids[0]).Name}
		if err := g.reach("prepared"); err != nil {
			run.Inconclusive(fmt.Sprintf("cannot reach state prepared: %v", err))
			return
		}
		start := make(chan struct{})
		out := make(chan reply, len(callers))
		for _, x := range callers {
			go func(x uint64) {
				sec, vv := fakeContribution(2, target)
				<-start
				var r reply
				r.caller = x
				if perr := rig.Safely(func() error {
					r.res, r.err = c.Inst[target].Stack.ReceiverH.Contribute(rig.PeerCtx(c.Endpoint(x).Name), &pb.ContributeRequest{Account: g.account, Secret: sec, VerificationVector: vv})
					return nil
				}); perr != nil {
					r.res, r.err = nil, perr
				}
				out <- r
			}(x)
		}
		close(start)
		for range callers {
			r := <-out
			run.Eval(1)
			run.Count("concurrent_contributions", 1)
			run.Distinct(fmt.Sprintf("concurrent contribution: refused=%v share-bytes=%d", r.err != nil, len(r.res.GetSecret())))
			if r.err != nil || len(r.res.GetSecret()) == 0 {
				continue
			}
			var sk bls.SecretKey
			if sk.Deserialize(r.res.GetSecret()) != nil || sk.IsZero() {
				continue
			}
			pubShare := sk.GetPublicKey().Serialize()
			run.Count("concurrent_contributions_answered_with_a_share", 1)
			for _, id := range ids {
				if id == r.caller {
					continue
				}
				if ev, err := oracle.EvalVVec(r.res.GetVerificationVector(), id); err == nil && bytes.Equal(ev, pubShare) {
					run.Violate(fmt.Sprintf("participant %d answered the contribution of peer %d with the secret share computed for identifier %d (two peers contributing at once)", target, r.caller, id),
						map[string]any{"target": target, "caller": r.caller, "share_of": id, "round": round})
				}
			}
		}
		for _, p := range ids {
			_, _ = c.Inst[p].Stack.ReceiverH.Abort(rig.PeerCtx(g.as), &pb.AbortRequest{Account: g.account})
		}
	}
	if run.Get("concurrent_contributions_answered_with_a_share") == 0 {
		run.Inconclusive("no concurrent contribution was answered with a share")
	}
}
