package props

import (
	"fmt"
	"math/rand"
	"strings"

	"verif/harness/oracle"

	"github.com/attestantio/dirk/services/checker"
)

// Operations are the operation names Dirk's services pass to the checker.
var Operations = []string{"Sign", "Sign beacon attestation", "Sign beacon proposal", "Access account", "Create account",
	"Lock wallet", "Unlock wallet", "Lock account", "Unlock account"}

func flipCase(r *rand.Rand, s string) string {
	b := []byte(s)
	for i := range b {
		if r.Intn(2) == 0 {
			switch {
			case b[i] >= 'a' && b[i] <= 'z':
				b[i] -= 32
			case b[i] >= 'A' && b[i] <= 'Z':
				b[i] += 32
			}
		}
	}
	return string(b)
}

// genPattern emits a balanced, RE2-valid expression built around the given literal names, and a label of its shape.
func genPattern(r *rand.Rand, names []string) (string, string) {
	a := names[r.Intn(len(names))]
	b := names[r.Intn(len(names))]
	switch r.Intn(15) {
	case 0:
		return a, "literal"
	case 1:
		return flipCase(r, a), "literal-mixedcase"
	case 2:
		return ".*", "dotstar"
	case 3:
		return a + "|" + b, "alternation"
	case 4:
		return a + "|" + b + "|" + names[r.Intn(len(names))], "alternation3"
	case 5:
		return "^" + a, "own-prefix-anchor"
	case 6:
		return a + "$", "own-suffix-anchor"
	case 7:
		return "^" + a + "$", "own-anchors"
	case 8:
		return "(?i)" + a, "own-caseflag"
	case 9:
		return a[:len(a)-1] + "[0-9a-c]", "class"
	case 10:
		return a + "+", "plus"
	case 11:
		return a + ".?", "optional"
	case 12:
		return "(" + a + "|" + b + ")", "group-alternation"
	case 13:
		return "^" + a + "|" + b + "$", "anchored-alternation"
	default:
		return a[:1] + ".*", "prefix-dotstar"
	}
}

func genOps(r *rand.Rand) ([]string, string) {
	n := 1 + r.Intn(4)
	ops := make([]string, n)
	shape := make([]string, n)
	for i := range ops {
		switch r.Intn(9) {
		case 0, 7, 8:
			ops[i], shape[i] = "All", "all"
		case 1:
			ops[i], shape[i] = "None", "none"
		case 2:
			ops[i], shape[i] = flipCase(r, "all"), "all"
		case 3, 4:
			ops[i], shape[i] = "~"+Operations[r.Intn(len(Operations))], "anti"
		default:
			ops[i], shape[i] = Operations[r.Intn(len(Operations))], "op"
		}
		if r.Intn(4) == 0 {
			ops[i] = flipCase(r, ops[i])
		}
	}
	return ops, strings.Join(shape, ",")
}

// PermGen is a generated permission configuration with both representations.
type PermGen struct {
	Dirk   map[string][]*checker.Permissions
	Model  oracle.PermTable
	Shapes map[string]bool
}

// genPermTable builds a seeded table over the given wallet and account name stems.
func genPermTable(r *rand.Rand, clients []string, wallets, accounts []string) *PermGen {
	g := &PermGen{Dirk: map[string][]*checker.Permissions{}, Model: oracle.PermTable{}, Shapes: map[string]bool{}}
	for _, c := range clients {
		n := 1 + r.Intn(5)
		for i := 0; i < n; i++ {
			wp, ws := genPattern(r, wallets)
			path := wp
			as := "none"
			if r.Intn(4) > 0 {
				var ap string
				ap, as = genPattern(r, accounts)
				path = wp + "/" + ap
			}
			ops, os := genOps(r)
			g.Dirk[c] = append(g.Dirk[c], &checker.Permissions{Path: path, Operations: ops})
			g.Model[c] = append(g.Model[c], oracle.PermEntry{Path: path, Ops: ops})
			g.Shapes[fmt.Sprintf("w:%s a:%s ops:%s", ws, as, os)] = true
		}
	}
	return g
}

// namePool returns names engineered around the stems: exact, extended, prefixed, case-flipped, unrelated.
func namePool(r *rand.Rand, stems []string, separators ...bool) ([]string, []string) {
	var names, rels []string
	for _, s := range stems {
		names = append(names, s, s+"0", "x"+s, flipCase(r, s), s+s, s[:len(s)-1])
		rels = append(rels, "exact", "suffix-extended", "prefix-extended", "case-flipped", "doubled", "truncated")
		if len(separators) > 0 && separators[0] {
			// Account names (never wallet names) may contain the path separator.
			names = append(names, s+"/1", "x/"+s)
			rels = append(rels, "with-separator-after", "with-separator-before")
		}
	}
	names = append(names, "unrelated", "Z")
	rels = append(rels, "unrelated", "unrelated")
	return names, rels
}
