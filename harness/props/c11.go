package props

import (
	"bytes"
	"context"
	"encoding/gob"
	"encoding/hex"
	"encoding/json"
	"fmt"
	"math/rand"
	"os"
	"path/filepath"
	"strconv"
	"strings"

	"verif/harness/evid"
	"verif/harness/oracle"
	"verif/harness/rig"

	"github.com/attestantio/dirk/rules"
	standardrules "github.com/attestantio/dirk/rules/standard"
	"github.com/rs/zerolog"
)

// Legacy record types: same field names as the pre-v1 gob-encoded records.
type signBeaconAttestationState struct {
	SourceEpoch int64
	TargetEpoch int64
}
type signBeaconProposalState struct {
	Slot int64
}

func gobBytes(v any) []byte {
	var b bytes.Buffer
	if err := gob.NewEncoder(&b).Encode(v); err != nil {
		panic(err)
	}
	return b.Bytes()
}

type c11Probe struct {
	Key      int
	Kind     string
	Src, Tgt uint64
}

func c11Probes(r *rand.Rand, wm []oracle.WM) []c11Probe {
	var ps []c11Probe
	add := func(base uint64, d int) (uint64, bool) {
		if d < 0 && base < uint64(-d) {
			return 0, false
		}
		return base + uint64(d), true
	}
	for k, w := range wm {
		for _, d := range []int{-1, 0, 1, 2} {
			if v, ok := add(w.MaxSlot, d); ok && (w.HasProp || d >= 0) {
				ps = append(ps, c11Probe{Key: k, Kind: "prop", Tgt: v})
			}
		}
		for _, ds := range []int{-1, 0, 1} {
			for _, dt := range []int{-1, 0, 1, 2} {
				s, ok1 := add(w.MaxSrc, ds)
				t, ok2 := add(w.MaxTgt, dt)
				if ok1 && ok2 {
					ps = append(ps, c11Probe{Key: k, Kind: "att", Src: s, Tgt: t})
				}
			}
		}
	}
	r.Shuffle(len(ps), func(i, j int) { ps[i], ps[j] = ps[j], ps[i] })
	return ps
}

// runProbes issues the probe sequence at the rules boundary and returns the verdicts.
func runProbes(svc rules.Service, keys []*rig.Key, ps []c11Probe) []rules.Result {
	out := make([]rules.Result, len(ps))
	for i, p := range ps {
		if p.Kind == "prop" {
			out[i] = ruleProp(svc, keys[p.Key].Pub, p.Tgt)
		} else {
			out[i] = ruleAtt(svc, keys[p.Key].Pub, p.Src, p.Tgt)
		}
	}
	return out
}

// modelProbes gives the verdicts the sequential specification demands where it is definite:
// advancing => APPROVED; at or below a signed target/slot, or below a signed source => not APPROVED.
func modelProbes(wm []oracle.WM, ps []c11Probe) []string {
	w := append([]oracle.WM(nil), wm...)
	out := make([]string, len(ps))
	for i, p := range ps {
		k := &w[p.Key]
		if p.Kind == "prop" {
			if k.PropAdvancing(p.Tgt) {
				out[i] = "approve"
				k.SignedProp(p.Tgt)
			} else {
				out[i] = "refuse"
			}
		} else {
			if k.AttAdvancing(p.Src, p.Tgt) {
				out[i] = "approve"
				k.SignedAtt(p.Src, p.Tgt)
			} else {
				out[i] = "refuse"
			}
		}
	}
	return out
}

func copyDir(src, dst string) error {
	return filepath.Walk(src, func(path string, info os.FileInfo, err error) error {
		if err != nil {
			return err
		}
		rel, _ := filepath.Rel(src, path)
		target := filepath.Join(dst, rel)
		if info.IsDir() {
			return os.MkdirAll(target, 0o755)
		}
		if info.Name() == "LOCK" {
			return nil
		}
		data, err := os.ReadFile(path)
		if err != nil {
			return err
		}
		return os.WriteFile(target, data, 0o644)
	})
}

// C11 checks export fidelity, the export/import round trip, restart, and legacy records.
func C11(cfg Cfg) int {
	run := evid.New("C11", cfg.Tier, cfg.Seed, "exploration")
	run.Rule = "histories of well-formed signing decisions over 3 keys (epochs < 2^63), then: (a) the in-process export and the command-line export must state exactly the highest slot / source / target signed per key (-1 or absent where nothing); (b) the export is imported by the command line into an empty base directory; (c) the original is closed and reopened; " +
		"the restarted original and the re-imported instance are given the same shuffled probe grid around every watermark (slot -1..+2; source -1..+1 x target -1..+2) and must give identical verdict sequences that agree with the sequential specification; (d) a store pre-populated with legacy gob-encoded records of arbitrary values must decide like the specification seeded with those values; distinct = (scenario, which records exist, verdict pattern) classes"
	run.Assume = []string{"decisions are taken at the rules.Service boundary of the real rules package", "legacy records are gob encodings of structs with the historical field names"}
	r := cfg.Rand("c11")
	histories := cfg.N(120, 2000)
	for h := 0; h < histories && run.NumViolations() < 5; h++ {
		baseO := filepath.Join(cfg.Work, "orig")
		baseR := filepath.Join(cfg.Work, "reimport")
		_ = os.RemoveAll(baseO)
		_ = os.RemoveAll(baseR)
		_ = rig.NewBaseDir(baseO)
		_ = rig.NewBaseDir(baseR)
		keys := rig.DetKeys(fmt.Sprintf("c11-%d", h), 3)
		if h%2 == 1 {
			keys[2] = rig.OpaqueKey(fmt.Sprintf("c11-%d", h), [][]byte{{0x00}, {0x0a}, {0x00, 0x00, 0x07}, {0x01}, {0x00, 0x30}}[(h/2)%5]...)
			run.Distinct(fmt.Sprintf("opaque key prefix %x", keys[2].Pub[:2]))
		}
		svc, err := rig.OpenRules(baseO)
		if err != nil {
			run.Inconclusive(err.Error())
			break
		}
		wm := make([]oracle.WM, 3)
		var hist []string
		for s := 0; s < 5+r.Intn(25); s++ {
			k := r.Intn(3)
			if r.Intn(5) == 0 {
				// The batch rule (what a multi-attestation request reaches), with entries it must refuse among them:
				// it writes a record for every entry of the batch.
				n := 2 + r.Intn(2)
				sel := r.Perm(3)[:n]
				pubs := make([][]byte, n)
				srcs, tgts := make([]uint64, n), make([]uint64, n)
				for i, kk := range sel {
					pubs[i] = keys[kk].Pub
					srcs[i] = uint64(r.Intn(40))
					tgts[i] = srcs[i] + uint64(r.Intn(8))
					if r.Intn(3) == 0 {
						srcs[i], tgts[i] = tgts[i]+1, srcs[i] // target below source: refused
					}
				}
				res := ruleAtts(svc, pubs, srcs, tgts)
				for i, kk := range sel {
					if i < len(res) && res[i] == rules.APPROVED {
						wm[kk].SignedAtt(srcs[i], tgts[i])
					}
					hist = append(hist, fmt.Sprintf("key%d batch att %d->%d -> %v", kk, srcs[i], tgts[i], res))
				}
				continue
			}
			if r.Intn(3) == 0 {
				slot := uint64(r.Intn(300))
				if r.Intn(10) == 0 {
					slot = 1<<63 - 1 - uint64(r.Intn(3))
				}
				v := ruleProp(svc, keys[k].Pub, slot)
				if v == rules.APPROVED {
					wm[k].SignedProp(slot)
				}
				hist = append(hist, fmt.Sprintf("key%d prop %d -> %s", k, slot, v))
			} else {
				src := uint64(r.Intn(40))
				tgt := src + uint64(r.Intn(8))
				if r.Intn(12) == 0 {
					src, tgt = 0, 0
				}
				v := ruleAtt(svc, keys[k].Pub, src, tgt)
				if v == rules.APPROVED {
					wm[k].SignedAtt(src, tgt)
				}
				hist = append(hist, fmt.Sprintf("key%d att %d->%d -> %s", k, src, tgt, v))
			}
		}
		run.Eval(1)
		// (a) in-process export.
		exp, err := exportTrips(svc)
		_ = svc.Close(context.Background())
		if err != nil {
			run.Violate("export failed: "+err.Error(), hist)
			continue
		}
		want := map[[48]byte]trip{}
		shape := ""
		for k := range keys {
			t := trip{-1, -1, -1}
			if wm[k].HasProp {
				t.Slot = int64(wm[k].MaxSlot)
			}
			if wm[k].HasAtt {
				t.Src, t.Tgt = int64(wm[k].MaxSrc), int64(wm[k].MaxTgt)
			}
			if t != (trip{-1, -1, -1}) {
				want[keys[k].Pub48()] = t
			}
			shape += fmt.Sprintf("[prop=%v att=%v]", wm[k].HasProp, wm[k].HasAtt)
		}
		if !sameTrips(exp, want) {
			run.Violate(fmt.Sprintf("in-process export %v differs from what was signed %v", fmtTrips(exp), fmtTrips(want)), hist)
		}
		// (a') command-line export.
		expFile := filepath.Join(baseO, "export.json")
		_, se, code := rig.RunDirk(baseO, "--export-slashing-protection", "--genesis-validators-root", gvr, "--slashing-protection-file", expFile)
		if code != 0 {
			run.Violate("command-line export failed: "+se, hist)
			continue
		}
		cli, err := parseInterchange(expFile)
		if err != nil {
			run.Violate("command-line export is not a valid interchange file: "+err.Error(), hist)
			continue
		}
		if !sameTrips(cli, want) {
			run.Violate(fmt.Sprintf("command-line export %v differs from what was signed %v", fmtTrips(cli), fmtTrips(want)), hist)
		}
		run.Count("exports_compared", 2)
		// (b) import into an empty instance.
		_, se, code = rig.RunDirk(baseR, "--import-slashing-protection", "--genesis-validators-root", gvr, "--slashing-protection-file", expFile)
		if code != 0 {
			run.Violate("importing Dirk's own export into an empty instance failed: "+se, hist)
			continue
		}
		// (c) restart of the original, and the probe sequences.
		ps := c11Probes(r, wm)
		svcO, err := rig.OpenRules(baseO)
		if err != nil {
			run.Violate("original cannot be reopened: "+err.Error(), hist)
			continue
		}
		svcR, err := rig.OpenRules(baseR)
		if err != nil {
			run.Violate("re-imported instance cannot be opened: "+err.Error(), hist)
			_ = svcO.Close(context.Background())
			continue
		}
		vo, vr := runProbes(svcO, keys, ps), runProbes(svcR, keys, ps)
		_ = svcO.Close(context.Background())
		_ = svcR.Close(context.Background())
		model := modelProbes(wm, ps)
		approvals := 0
		for i := range ps {
			run.Eval(1)
			if vo[i] != vr[i] {
				run.Violate(fmt.Sprintf("restarted original and re-imported instance decide differently on probe %+v: %s vs %s", ps[i], vo[i], vr[i]), map[string]any{"history": hist, "probes": ps[:i+1]})
				break
			}
			if (vo[i] == rules.APPROVED) != (model[i] == "approve") {
				run.Violate(fmt.Sprintf("after restart probe %+v was answered %s but the signed history demands %s", ps[i], vo[i], model[i]), map[string]any{"history": hist, "signed": wm, "probes": ps[:i+1]})
				break
			}
			if vo[i] == rules.APPROVED {
				approvals++
			}
		}
		run.Count("probes", len(ps))
		run.Count("probe_approvals", approvals)
		run.Distinct(fmt.Sprintf("roundtrip %s approvals=%d/%d", shape, approvals, len(ps)))
		if h == 0 {
			run.Sample(map[string]any{"history": hist, "export": fmtTrips(exp), "probes": ps[:6], "verdicts_original": fmt.Sprint(vo[:6]), "verdicts_reimported": fmt.Sprint(vr[:6])})
		}
	}
	c11Large(run, cfg, r)
	c11Legacy(run, cfg, r)
	if run.Get("probes") == 0 {
		run.Inconclusive("no probe was evaluated")
	}
	return run.Finish()
}

func parseInterchange(path string) (map[[48]byte]trip, error) {
	data, err := os.ReadFile(path)
	if err != nil {
		return nil, err
	}
	var f icFile
	if err := json.Unmarshal(data, &f); err != nil {
		return nil, err
	}
	if f.Metadata["interchange_format_version"] != "5" || f.Metadata["genesis_validators_root"] != gvr {
		return nil, fmt.Errorf("unexpected metadata %v", f.Metadata)
	}
	out := map[[48]byte]trip{}
	for _, d := range f.Data {
		b, err := hex.DecodeString(strings.TrimPrefix(d.Pubkey, "0x"))
		if err != nil || len(b) != 48 {
			return nil, fmt.Errorf("bad pubkey %q", d.Pubkey)
		}
		var k [48]byte
		copy(k[:], b)
		t := trip{-1, -1, -1}
		for _, bl := range d.Blocks {
			v, err := strconv.ParseInt(bl.Slot, 10, 64)
			if err != nil {
				return nil, err
			}
			t.Slot = maxi(t.Slot, v)
		}
		for _, a := range d.Atts {
			s, err1 := strconv.ParseInt(a.Source, 10, 64)
			g, err2 := strconv.ParseInt(a.Target, 10, 64)
			if err1 != nil || err2 != nil {
				return nil, fmt.Errorf("bad attestation %+v", a)
			}
			t.Src, t.Tgt = maxi(t.Src, s), maxi(t.Tgt, g)
		}
		if _, dup := out[k]; dup {
			return nil, fmt.Errorf("key %x appears twice in the export", k[:6])
		}
		out[k] = t
	}
	return out, nil
}

// c11Legacy: records in the old gob format must be honoured.
func c11Legacy(run *evid.Run, cfg Cfg, r *rand.Rand) {
	rounds := cfg.N(60, 500)
	for h := 0; h < rounds && run.NumViolations() < 5; h++ {
		base := filepath.Join(cfg.Work, "legacy")
		_ = os.RemoveAll(base)
		_ = rig.NewBaseDir(base)
		keys := rig.DetKeys(fmt.Sprintf("c11l-%d", h), 3)
		store, err := standardrules.NewStore(context.Background(), filepath.Join(base, "storage"), false, zerolog.Nop())
		if err != nil {
			run.Inconclusive(err.Error())
			return
		}
		wm := make([]oracle.WM, 3)
		vals := func() uint64 {
			switch r.Intn(5) {
			case 0:
				return 0
			case 1:
				return uint64(r.Intn(5))
			case 2:
				return 1<<40 + uint64(r.Intn(100))
			}
			return uint64(r.Intn(100000))
		}
		desc := ""
		for k, key := range keys {
			if r.Intn(4) > 0 {
				s := vals()
				t := s + uint64(r.Intn(10))
				_ = store.Store(context.Background(), append(append([]byte{}, key.Pub...), 2), gobBytes(&signBeaconAttestationState{SourceEpoch: int64(s), TargetEpoch: int64(t)}))
				wm[k].SignedAtt(s, t)
				desc += fmt.Sprintf("key%d att %d->%d (gob) ", k, s, t)
			}
			if r.Intn(4) > 0 {
				s := vals()
				_ = store.Store(context.Background(), append(append([]byte{}, key.Pub...), 3), gobBytes(&signBeaconProposalState{Slot: int64(s)}))
				wm[k].SignedProp(s)
				desc += fmt.Sprintf("key%d slot %d (gob) ", k, s)
			}
		}
		_ = store.Close(context.Background())
		svc, err := rig.OpenRules(base)
		if err != nil {
			run.Violate("store with legacy records cannot be opened: "+err.Error(), desc)
			continue
		}
		exp, err := exportTrips(svc)
		if err != nil {
			run.Violate("store with legacy records cannot be exported: "+err.Error(), desc)
		} else {
			for k, key := range keys {
				t := trip{-1, -1, -1}
				if wm[k].HasProp {
					t.Slot = int64(wm[k].MaxSlot)
				}
				if wm[k].HasAtt {
					t.Src, t.Tgt = int64(wm[k].MaxSrc), int64(wm[k].MaxTgt)
				}
				got, ok := exp[key.Pub48()]
				if !ok {
					got = trip{-1, -1, -1}
				}
				if got != t {
					run.Violate(fmt.Sprintf("legacy records of key%d exported as %+v, written as %+v", k, got, t), desc)
				}
			}
		}
		ps := c11Probes(r, wm)
		vs := runProbes(svc, keys, ps)
		_ = svc.Close(context.Background())
		model := modelProbes(wm, ps)
		for i := range ps {
			run.Eval(1)
			if (vs[i] == rules.APPROVED) != (model[i] == "approve") {
				run.Violate(fmt.Sprintf("with legacy-format records probe %+v was answered %s but the records demand %s", ps[i], vs[i], model[i]), map[string]any{"records": desc, "probes": ps[:i+1]})
				break
			}
		}
		run.Count("probes", len(ps))
		run.Count("legacy_stores", 1)
		run.Distinct("legacy " + strings.Join(strings.Fields(strings.Map(func(c rune) rune {
			if c >= '0' && c <= '9' {
				return -1
			}
			return c
		}, desc)), " "))
		if h == 0 {
			run.Sample(map[string]any{"legacy_records": desc, "probes": ps[:4], "verdicts": fmt.Sprint(vs[:4])})
		}
	}
}

// c11Large: stores holding hundreds of records (more than any iterator prefetch window): the export must
// still be exact for every key and the re-imported instance must decide like the restarted original.
func c11Large(run *evid.Run, cfg Cfg, r *rand.Rand) {
	for round := 0; round < cfg.N(3, 12) && run.NumViolations() < 5; round++ {
		// More than a thousand records (two per key) in quick as well: paging bugs start there.
		nkeys := []int{130, 1100, 320, 75, 2600, 1000}[round%6]
		baseO, baseR := filepath.Join(cfg.Work, "large-orig"), filepath.Join(cfg.Work, "large-reimport")
		_ = os.RemoveAll(baseO)
		_ = os.RemoveAll(baseR)
		_ = rig.NewBaseDir(baseO)
		_ = rig.NewBaseDir(baseR)
		keys := rig.DetKeys(fmt.Sprintf("c11big-%d", round), nkeys)
		svc, err := rig.OpenRules(baseO)
		if err != nil {
			run.Inconclusive(err.Error())
			return
		}
		wm := make([]oracle.WM, nkeys)
		for k, key := range keys {
			if r.Intn(8) > 0 {
				src := uint64(r.Intn(1000))
				tgt := src + 1 + uint64(r.Intn(50))
				if ruleAtt(svc, key.Pub, src, tgt) == rules.APPROVED {
					wm[k].SignedAtt(src, tgt)
				}
			}
			if r.Intn(8) > 0 {
				slot := uint64(r.Intn(100000))
				if ruleProp(svc, key.Pub, slot) == rules.APPROVED {
					wm[k].SignedProp(slot)
				}
			}
		}
		exp, err := exportTrips(svc)
		_ = svc.Close(context.Background())
		if err != nil {
			run.Violate("export of a large store failed: "+err.Error(), nil)
			continue
		}
		want := map[[48]byte]trip{}
		for k, key := range keys {
			t := trip{-1, -1, -1}
			if wm[k].HasProp {
				t.Slot = int64(wm[k].MaxSlot)
			}
			if wm[k].HasAtt {
				t.Src, t.Tgt = int64(wm[k].MaxSrc), int64(wm[k].MaxTgt)
			}
			if t != (trip{-1, -1, -1}) {
				want[key.Pub48()] = t
			}
		}
		wrong := 0
		for k, w := range want {
			if exp[k] != w {
				wrong++
			}
		}
		run.Eval(nkeys)
		run.Count("large_store_records_compared", len(want))
		if wrong > 0 || len(exp) != len(want) {
			run.Violate(fmt.Sprintf("export of a store with %d keys: %d of %d exported entries differ from what was signed (%d entries exported)", nkeys, wrong, len(want), len(exp)), nil)
		}
		// CLI export -> CLI import -> same decisions on a sample of keys.
		expFile := filepath.Join(baseO, "export.json")
		if _, se, code := rig.RunDirk(baseO, "--export-slashing-protection", "--genesis-validators-root", gvr, "--slashing-protection-file", expFile); code != 0 {
			run.Violate("command-line export of a large store failed: "+se, nil)
			continue
		}
		if cli, err := parseInterchange(expFile); err != nil || !sameTrips(cli, want) {
			run.Violate(fmt.Sprintf("command-line export of a store with %d keys differs from what was signed (%v)", nkeys, err), nil)
		}
		if _, se, code := rig.RunDirk(baseR, "--import-slashing-protection", "--genesis-validators-root", gvr, "--slashing-protection-file", expFile); code != 0 {
			run.Violate("importing the export of a large store failed: "+se, nil)
			continue
		}
		svcO, err1 := rig.OpenRules(baseO)
		svcR, err2 := rig.OpenRules(baseR)
		if err1 != nil || err2 != nil {
			run.Violate(fmt.Sprintf("large store cannot be reopened: %v %v", err1, err2), nil)
			continue
		}
		// Probe a spread of keys (first, last and random ones), at and just above each watermark.
		probed := map[int]bool{}
		for _, k := range append([]int{0, 1, nkeys - 1, nkeys / 2}, r.Perm(nkeys)[:40]...) {
			if probed[k] {
				continue // each key is probed once: probes advance its state
			}
			probed[k] = true
			sub := []*rig.Key{keys[k]}
			ps := c11Probes(r, []oracle.WM{wm[k]})
			vo, vr := runProbes(svcO, sub, ps), runProbes(svcR, sub, ps)
			model := modelProbes([]oracle.WM{wm[k]}, ps)
			for i := range ps {
				run.Eval(1)
				if vo[i] != vr[i] {
					run.Violate(fmt.Sprintf("large store (%d keys): restarted original and re-imported instance decide differently for key %d on probe %+v: %s vs %s", nkeys, k, ps[i], vo[i], vr[i]), nil)
					break
				}
				if (vo[i] == rules.APPROVED) != (model[i] == "approve") {
					run.Violate(fmt.Sprintf("large store (%d keys): key %d probe %+v answered %s, the signed history demands %s", nkeys, k, ps[i], vo[i], model[i]), nil)
					break
				}
			}
			run.Count("probes", len(ps))
		}
		_ = svcO.Close(context.Background())
		_ = svcR.Close(context.Background())
		run.Distinct(fmt.Sprintf("large store %d keys", nkeys))
	}
}
