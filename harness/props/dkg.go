package props

import (
	"context"
	"fmt"

	"verif/harness/oracle"
	"verif/harness/rig"

	"github.com/attestantio/dirk/core"
	"github.com/attestantio/dirk/rules"
	e2wallet "github.com/wealdtech/go-eth2-wallet"
	e2wtypes "github.com/wealdtech/go-eth2-wallet-types/v2"
)

// dkgView reads the generated account back from a participant's wallet store.
func dkgView(inst *rig.Instance, account string) (*oracle.DKGView, error) {
	walletName, accountName, err := e2wallet.WalletAndAccountNames(account)
	if err != nil {
		return nil, err
	}
	w, err := e2wallet.OpenWallet(walletName, e2wallet.WithStore(inst.Store))
	if err != nil {
		return nil, err
	}
	a, err := w.(e2wtypes.WalletAccountByNameProvider).AccountByName(context.Background(), accountName)
	if err != nil {
		return nil, err
	}
	da, ok := a.(e2wtypes.DistributedAccount)
	if !ok {
		return nil, fmt.Errorf("account is not distributed")
	}
	v := &oracle.DKGView{ID: inst.ID, Composite: da.CompositePublicKey().Marshal(), Threshold: da.SigningThreshold(), Participants: da.Participants(), SharePub: a.PublicKey().Marshal()}
	for _, k := range a.(e2wtypes.AccountVerificationVectorProvider).VerificationVector() {
		v.VVec = append(v.VVec, k.Marshal())
	}
	// The private share as stored (this account object comes fresh from the store, locked): it must open with the
	// passphrase of the generation - every generation here is given "pass", by the client or as the participants'
	// configured generation passphrase - and sign as SharePub.
	if l, ok := a.(e2wtypes.AccountLocker); ok {
		err := l.Unlock(context.Background(), []byte("pass"))
		if err != nil && inst.GenPass != "pass" {
			// A request without a passphrase makes each participant use its own configured one.
			err = l.Unlock(context.Background(), []byte(inst.GenPass))
		}
		if err != nil {
			v.StoredShareProblem = "the stored share opens neither with the client's passphrase nor with this participant's own generation passphrase: " + err.Error()
		} else if sg, ok := a.(e2wtypes.AccountSigner); ok {
			msg := Root32(0x5a)
			sig, err := sg.Sign(context.Background(), msg)
			if err != nil {
				v.StoredShareProblem = "the stored share cannot sign: " + err.Error()
			} else if okv, _ := oracle.VerifySig(v.SharePub, msg, sig.Marshal()); !okv {
				v.StoredShareProblem = "the stored share signs as a key other than the account's public key"
			}
		}
	}
	return v, nil
}

// dkgHolders returns the views of all instances that hold the account.
func dkgHolders(c *rig.Cluster, account string) []oracle.DKGView {
	var out []oracle.DKGView
	for _, id := range c.IDs {
		if v, err := dkgView(c.Inst[id], account); err == nil {
			out = append(out, *v)
		}
	}
	return out
}

// dkgThresholdSign has every participant sign one message through its own signer service and checks
// that every t-subset of the partial signatures recovers a signature valid under the composite key
// and that (t-1)-subsets do not.  It returns problems found and the number of subsets tried.
func dkgThresholdSign(c *rig.Cluster, account string, composite []byte, t int, msgFill byte) ([]string, int) {
	var problems []string
	data := &rules.SignData{Domain: Dom([]byte{9, 0, 0, 0}, msgFill), Data: Root32(msgFill)}
	root := oracle.SigningRoot(b32(data.Data), data.Domain)
	sigs := map[uint64][]byte{}
	for _, id := range c.IDs {
		inst := c.Inst[id]
		res, sig := inst.Stack.Signer.SignGeneric(context.Background(), rig.Client1(), account, nil, data)
		if res != core.ResultSucceeded {
			problems = append(problems, fmt.Sprintf("participant %d cannot sign with the new account without restart: %s", id, res))
			continue
		}
		sigs[id] = sig
		// The same request addressed by the account's public key (this participant's share key, as listed) is the
		// same account: same verdict and, BLS signing being deterministic, the same signature.
		if v, err := dkgView(inst, account); err == nil && len(v.SharePub) == 48 {
			kres, ksig := inst.Stack.Signer.SignGeneric(context.Background(), rig.Client1(), "", v.SharePub, data)
			if kres != core.ResultSucceeded {
				problems = append(problems, fmt.Sprintf("participant %d cannot sign with the new account addressed by its public key without restart: %s", id, kres))
			} else if string(ksig) != string(sig) {
				problems = append(problems, fmt.Sprintf("participant %d signs with a different key when the new account is addressed by its public key", id))
			}
		}
		// Listing must show it too.
		lres, accts := inst.Stack.Lister.ListAccounts(context.Background(), rig.Client1(), []string{"D"})
		found := false
		for _, a := range accts {
			if "D/"+a.Name() == account {
				found = true
				if cp, ok := a.(e2wtypes.AccountCompositePublicKeyProvider); !ok || string(cp.CompositePublicKey().Marshal()) != string(composite) {
					problems = append(problems, fmt.Sprintf("participant %d lists the account with a different composite key", id))
				}
			}
		}
		if lres != core.ResultSucceeded || !found {
			problems = append(problems, fmt.Sprintf("participant %d does not list the new account without restart", id))
		}
	}
	if len(sigs) != len(c.IDs) {
		return problems, 0
	}
	tried := 0
	for _, sub := range oracle.Subsets(c.IDs, t, 64) {
		tried++
		rec, err := oracle.Recover(sigs, sub)
		if err != nil {
			problems = append(problems, fmt.Sprintf("cannot recover from participants %v: %v", sub, err))
			continue
		}
		if ok, _ := oracle.VerifySig(composite, root[:], rec); !ok {
			problems = append(problems, fmt.Sprintf("signature recovered from %d participants %v is not valid under the composite key", t, sub))
		}
	}
	if t > 1 {
		for _, sub := range oracle.Subsets(c.IDs, t-1, 64) {
			tried++
			rec, err := oracle.Recover(sigs, sub)
			if err != nil {
				continue
			}
			if ok, _ := oracle.VerifySig(composite, root[:], rec); ok {
				problems = append(problems, fmt.Sprintf("only %d participants %v produced a signature valid under the composite key (threshold %d)", t-1, sub, t))
			}
		}
	}
	return problems, tried
}
