package props

import (
	"bufio"
	"encoding/hex"
	"fmt"
	"math/rand"
	"os"
	"os/exec"
	"path/filepath"
	"regexp"
	"sort"
	"strconv"
	"strings"
	"sync"
	"sync/atomic"
	"syscall"
	"time"

	"verif/harness/evid"
	"verif/harness/rig"

	"github.com/attestantio/dirk/core"
	"github.com/attestantio/dirk/util/verifhook"
)

// ---- the script: a deterministic list of requests over 3 keys -----------------------------------

type c03Step struct {
	Kind string // "att", "atts", "prop"
	Keys []int
	Src  []uint64
	Tgt  []uint64 // or slot for prop
	Fill byte
}

func c03Script(seed int64, id int, steps int) []c03Step {
	r := rand.New(rand.NewSource(seed*7919 + int64(id)))
	var out []c03Step
	for s := 0; s < steps; s++ {
		base := uint64(3*s + 1)
		st := c03Step{Fill: byte(0xa0 + r.Intn(2))}
		switch r.Intn(5) {
		case 0, 1:
			st.Kind = "att"
			st.Keys = []int{r.Intn(3)}
		case 2, 3:
			st.Kind = "atts"
			st.Keys = r.Perm(3)[:2+r.Intn(2)]
		default:
			st.Kind = "prop"
			st.Keys = []int{r.Intn(3)}
		}
		for range st.Keys {
			if r.Intn(5) == 0 && s > 0 {
				// A stale request (at or below what earlier steps asked for): must be refused if those were signed.
				b := uint64(3*(s-1) + 1)
				st.Src = append(st.Src, b)
				st.Tgt = append(st.Tgt, b+1)
			} else {
				st.Src = append(st.Src, base)
				st.Tgt = append(st.Tgt, base+1+uint64(r.Intn(2)))
			}
		}
		out = append(out, st)
	}
	return out
}

// ---- event log ------------------------------------------------------------------------------------

type c03Log struct {
	mu sync.Mutex
	f  *os.File
}

// write appends one line with a single write(2).
func (l *c03Log) write(format string, a ...any) {
	l.mu.Lock()
	defer l.mu.Unlock()
	_, _ = l.f.Write([]byte(fmt.Sprintf(format, a...) + "\n"))
}

type c03Event struct {
	Tag  string // SIGN or REL
	Key  []byte
	Kind string
	Src  uint64
	Tgt  uint64 // or slot
	Root string
}

func c03ReadEvents(path string) (events []c03Event, lastStep int, err error) {
	lastStep = -1
	f, err := os.Open(path)
	if err != nil {
		if os.IsNotExist(err) {
			return nil, -1, nil
		}
		return nil, -1, err
	}
	defer f.Close()
	sc := bufio.NewScanner(f)
	for sc.Scan() {
		fs := strings.Fields(sc.Text())
		if len(fs) == 2 && fs[0] == "STEP" {
			lastStep, _ = strconv.Atoi(fs[1])
		}
		if len(fs) == 6 && (fs[0] == "SIGN" || fs[0] == "REL") {
			k, _ := hex.DecodeString(fs[1])
			s, _ := strconv.ParseUint(fs[3], 10, 64)
			t, _ := strconv.ParseUint(fs[4], 10, 64)
			events = append(events, c03Event{Tag: fs[0], Key: k, Kind: fs[2], Src: s, Tgt: t, Root: fs[5]})
		}
	}
	return events, lastStep, nil
}

// ---- the child ------------------------------------------------------------------------------------

func init() { Children["C03child"] = c03Child }

// c03Child: args = <dir> <eventlog> <scriptID> <steps> <killPoint|none> <killN> [loop]
// It (1) reopens the store in <dir>, (2) verifies every SIGN/REL line already in the event log against the
// reopened store and probes conflicting twins, (3) continues the script after the last logged step and
// kills itself with SIGKILL at the killN-th hit of killPoint.
func c03Child(cfg Cfg) int {
	a := cfg.Args
	if len(a) < 6 {
		fmt.Println("usage: C03child dir eventlog script steps killpoint killn")
		return 3
	}
	dir, logPath := a[0], a[1]
	scriptID, _ := strconv.Atoi(a[2])
	nsteps, _ := strconv.Atoi(a[3])
	killPoint := a[4]
	killN, _ := strconv.ParseInt(a[5], 10, 64)
	loop := len(a) > 6 && a[6] == "loop"

	events, lastStep, err := c03ReadEvents(logPath)
	if err != nil {
		fmt.Println("cannot read event log:", err)
		return 3
	}
	run := evid.New("C03child", cfg.Tier, cfg.Seed, "fault_enumeration")
	env := &Env{Run: run, Synth: rig.NewSynthFetcher(), Probes: &rig.Probes{}, Client: "client1", IP: "10.0.0.1", pending: map[[80]byte]pendingReq{}, family: fmt.Sprintf("c03-%d-%d", cfg.Seed, scriptID)}
	env.Creds = rig.Client1()
	st, err := rig.NewStack(rig.StackOpts{StorageDir: dir, Fetcher: &rig.MonFetcher{Inner: env.Synth, Probes: env.Probes}})
	if err != nil {
		// Refusing to start is fail-closed: nothing can be signed.
		fmt.Println("REOPEN-FAILED", err)
		return 5
	}
	env.Stack = st
	env.FreshKeys(3)
	if sw, err := st.SyncWrites(); err != nil || !sw {
		fmt.Printf("CHILD-VIOLATION store opened with SyncWrites=%v (%v)\n", sw, err)
	}

	// (2) Verify what earlier incarnations logged.
	checked, probes := 0, 0
	for _, ev := range events {
		rs, err := st.ReadState(ev.Key)
		if err != nil {
			fmt.Println("CHILD-INCONCLUSIVE cannot read state:", err)
			return 3
		}
		checked++
		switch ev.Kind {
		case "att":
			if !rs.HasAtt || rs.Tgt < 0 || uint64(rs.Tgt) < ev.Tgt || rs.Src < 0 || uint64(rs.Src) < ev.Src {
				fmt.Printf("CHILD-VIOLATION after restart the store holds %+v for key %x but %s of attestation %d->%d was logged before the kill\n", rs, ev.Key[:6], ev.Tag, ev.Src, ev.Tgt)
			}
		case "prop":
			if !rs.HasProp || rs.Slot < 0 || uint64(rs.Slot) < ev.Tgt {
				fmt.Printf("CHILD-VIOLATION after restart the store holds %+v for key %x but %s of proposal at slot %d was logged before the kill\n", rs, ev.Key[:6], ev.Tag, ev.Tgt)
			}
		}
	}
	// Behavioural probe: a conflicting twin of every released duty must be refused by the restarted instance.
	seen := map[string]bool{}
	for _, ev := range events {
		id := fmt.Sprintf("%x/%s/%d/%d", ev.Key, ev.Kind, ev.Src, ev.Tgt)
		if ev.Tag != "REL" || seen[id] {
			continue
		}
		seen[id] = true
		ki := -1
		for i, k := range env.Keys {
			if string(k.Pub) == string(ev.Key) {
				ki = i
			}
		}
		if ki < 0 {
			continue
		}
		probes++
		if ev.Kind == "att" {
			c := mkAtt(env.Keys[ki], env.Names[ki], 0, 1, 0x77)
			c.Data.Source.Epoch, c.Data.Target.Epoch = ev.Src, ev.Tgt
			if v, s := env.SignAtt(ViaService, c); v == core.ResultSucceeded || len(s) > 0 {
				fmt.Printf("CHILD-VIOLATION after restart a different attestation %d->%d was signed for key %x although one had been released before the kill\n", ev.Src, ev.Tgt, ev.Key[:6])
			}
		} else {
			c := mkProp(env.Keys[ki], env.Names[ki], 0, 0x77)
			c.Data.Slot = ev.Tgt
			if v, s := env.SignProp(ViaService, c); v == core.ResultSucceeded || len(s) > 0 {
				fmt.Printf("CHILD-VIOLATION after restart a different proposal at slot %d was signed for key %x although one had been released before the kill\n", ev.Tgt, ev.Key[:6])
			}
		}
	}
	fmt.Printf("STAT events_checked %d\nSTAT probes %d\n", checked, probes)

	// (3) Continue the script.
	lf, err := os.OpenFile(logPath, os.O_WRONLY|os.O_APPEND|os.O_CREATE, 0o644)
	if err != nil {
		fmt.Println("cannot open event log:", err)
		return 3
	}
	elog := &c03Log{f: lf}
	hits := map[string]*int64{}
	var hmu sync.Mutex
	point := func(name string) {
		hmu.Lock()
		p := hits[name]
		if p == nil {
			p = new(int64)
			hits[name] = p
		}
		hmu.Unlock()
		if n := atomic.AddInt64(p, 1); name == killPoint && n == killN {
			_ = syscall.Kill(os.Getpid(), syscall.SIGKILL)
			time.Sleep(time.Hour)
		}
	}
	verifhook.Set(func(name string, _ [][]byte) error {
		point(name)
		return nil
	})
	env.Probes.BeforeSign = func(pub [48]byte, root []byte) error {
		env.mu.Lock()
		p, ok := env.pending[pendKey(pub, root)]
		env.mu.Unlock()
		// The SIGN line is written first: a kill at Sign.pre then leaves the obligation on record.
		if ok {
			switch p.kind {
			case "att":
				elog.write("SIGN %x att %d %d %x", pub[:], p.src, p.tgt, root)
			case "prop":
				elog.write("SIGN %x prop 0 %d %x", pub[:], p.slot, root)
			}
		}
		point("Sign.pre")
		return nil
	}
	env.Probes.AfterSign = func([48]byte, []byte, []byte) { point("Sign.post") }
	script := c03Script(cfg.Seed, scriptID, nsteps)
	for iter := 0; ; iter++ {
		for s := lastStep + 1; s < len(script); s++ {
			stp := script[s]
			elog.write("STEP %d", s)
			off := uint64(iter) * uint64(3*len(script)+10)
			switch stp.Kind {
			case "att", "atts":
				cs := make([]*AttCase, len(stp.Keys))
				for i, k := range stp.Keys {
					cs[i] = mkAtt(env.Keys[k], env.Names[k], 0, 1, stp.Fill)
					cs[i].Data.Source.Epoch, cs[i].Data.Target.Epoch = stp.Src[i]+off, stp.Tgt[i]+off
				}
				var res []core.Result
				var sigs [][]byte
				if stp.Kind == "att" {
					v, sg := env.SignAtt(ViaService, cs[0])
					res, sigs = []core.Result{v}, [][]byte{sg}
				} else {
					res, sigs = env.SignAtts(ViaService, cs)
				}
				point("Reply.pre")
				for i := range res {
					if res[i] == core.ResultSucceeded && i < len(sigs) && len(sigs[i]) > 0 {
						root := cs[i].SigningRoot()
						elog.write("REL %x att %d %d %x", cs[i].Key.Pub, cs[i].Data.Source.Epoch, cs[i].Data.Target.Epoch, root[:])
					}
				}
			case "prop":
				c := mkProp(env.Keys[stp.Keys[0]], env.Names[stp.Keys[0]], 0, stp.Fill)
				c.Data.Slot = stp.Tgt[0] + off
				v, sg := env.SignProp(ViaService, c)
				point("Reply.pre")
				if v == core.ResultSucceeded && len(sg) > 0 {
					root := c.SigningRoot()
					elog.write("REL %x prop 0 %d %x", c.Key.Pub, c.Data.Slot, root[:])
				}
			}
		}
		if !loop {
			break
		}
		lastStep = -1
	}
	hmu.Lock()
	names := make([]string, 0, len(hits))
	for n := range hits {
		names = append(names, n)
	}
	sort.Strings(names)
	for _, n := range names {
		fmt.Printf("HITS %s %d\n", n, *hits[n])
	}
	hmu.Unlock()
	_ = st.CloseRules()
	return 0
}

// ---- the parent -----------------------------------------------------------------------------------

type c03Run struct {
	run *evid.Run
	cfg Cfg
	bin string
}

// child runs one incarnation; it returns its output, whether it was killed by SIGKILL, and its exit code.
func (c *c03Run) child(dir, logPath string, script, steps int, point string, n int64, extra ...string) (string, bool, int) {
	args := append([]string{"C03child", "-tier", c.cfg.Tier, "-seed", fmt.Sprint(c.cfg.Seed), "-work", dir + "-w", dir, logPath, fmt.Sprint(script), fmt.Sprint(steps), point, fmt.Sprint(n)}, extra...)
	cmd := exec.Command(c.bin, args...)
	out, err := cmd.CombinedOutput()
	killed := false
	code := 0
	if err != nil {
		if ee, ok := err.(*exec.ExitError); ok {
			if ws, ok := ee.Sys().(syscall.WaitStatus); ok && ws.Signaled() && ws.Signal() == syscall.SIGKILL {
				killed = true
			}
			code = ee.ExitCode()
		} else {
			code = -1
		}
	}
	return string(out), killed, code
}

// absorb judges the output of an incarnation.
func (c *c03Run) absorb(out string, ctx any) {
	for _, l := range strings.Split(out, "\n") {
		switch {
		case strings.HasPrefix(l, "CHILD-VIOLATION "):
			c.run.Violate(strings.TrimPrefix(l, "CHILD-VIOLATION "), ctx)
		case strings.HasPrefix(l, "STAT "):
			f := strings.Fields(l)
			if len(f) == 3 {
				v, _ := strconv.Atoi(f[2])
				c.run.Count(f[1], v)
			}
		case strings.HasPrefix(l, "REOPEN-FAILED"):
			c.run.Count("reopen_failed_fail_closed", 1)
		case strings.HasPrefix(l, "CHILD-INCONCLUSIVE"):
			c.run.Inconclusive(l)
		}
	}
}

var hitsRe = regexp.MustCompile(`^HITS (\S+) (\d+)$`)

// C03 enumerates the crash points of scripts at hook granularity, adds random parent-side kills,
// and checks durability on the system-call stream.
func C03(cfg Cfg) int {
	run := evid.New("C03", cfg.Tier, cfg.Seed, "fault_enumeration")
	run.Rule = "for each deterministic script of single/batch attestation and proposal requests over 3 keys: a dry run counts the hits of every crash point (store Fetch/Store/BatchStore pre+post, Sign.pre, Sign.post, Reply.pre); then for every point and every hit number a child process SIGKILLs itself there, " +
		"is restarted on the same directory, and the restarted process checks every SIGN/REL line logged before the kill against the reopened store and probes a conflicting twin of every released duty, then continues the script towards a second and third kill; plus parent-side SIGKILLs at random instants; plus one run under strace whose log must show a synchronous value-log write before each SIGN/REL; distinct = (crash point, hit number, script) cells reached"
	run.Assume = []string{"SIGKILL + restart stands in for a crash: the page cache survives, so durability itself is decided on the syscall stream (O_DSYNC value log / fsync before release), not by power loss", "synthetic accounts log SIGN before signing with a single write(2)"}
	c := &c03Run{run: run, cfg: cfg, bin: os.Getenv("VH_BIN")}
	if c.bin == "" {
		c.bin = "/verif/.bin/vh"
	}
	r := cfg.Rand("c03")
	scripts := cfg.N(3, 20)
	steps := 8
	for sc := 0; sc < scripts && run.NumViolations() < 5; sc++ {
		// Dry run: which points does this script hit, and how often?
		dry := filepath.Join(cfg.Work, fmt.Sprintf("s%d-dry", sc))
		_ = os.MkdirAll(dry, 0o755)
		out, _, code := c.child(filepath.Join(dry, "db"), filepath.Join(dry, "events.log"), sc, steps, "none", 0)
		if code != 0 {
			run.Inconclusive(fmt.Sprintf("dry run of script %d failed (%d): %s", sc, code, tail(out, 800)))
			return run.Finish()
		}
		hits := map[string]int{}
		for _, l := range strings.Split(out, "\n") {
			if m := hitsRe.FindStringSubmatch(l); m != nil {
				hits[m[1]], _ = strconv.Atoi(m[2])
			}
		}
		_ = os.RemoveAll(dry)
		if sc == 0 {
			run.Sample(map[string]any{"script": c03Script(cfg.Seed, 0, steps), "crash_point_hits": hits})
		}
		points := make([]string, 0, len(hits))
		for p := range hits {
			points = append(points, p)
		}
		sort.Strings(points)
		for _, p := range points {
			run.Count("enumerated:"+p, hits[p])
			for n := 1; n <= hits[p] && run.NumViolations() < 5; n++ {
				d := filepath.Join(cfg.Work, fmt.Sprintf("s%d-%s-%d", sc, p, n))
				_ = os.MkdirAll(d, 0o755)
				db, lg := filepath.Join(d, "db"), filepath.Join(d, "events.log")
				ctx := map[string]any{"script": sc, "first_kill": p, "hit": n, "dir": d}
				point, hit := p, int64(n)
				for incarnation := 0; incarnation < 4; incarnation++ {
					out, killed, code := c.child(db, lg, sc, steps, point, hit)
					c.absorb(out, ctx)
					run.Eval(1)
					if killed {
						run.Count("kills", 1)
						run.Count("reached:"+point, 1)
						if incarnation == 0 {
							run.Distinct(fmt.Sprintf("script %d kill at %s hit %d", sc, point, hit))
						} else {
							run.Distinct(fmt.Sprintf("script %d follow-up kill at %s", sc, point))
						}
					} else if code == 5 {
						break
					} else if code != 0 {
						run.Inconclusive(fmt.Sprintf("incarnation failed with code %d: %s", code, tail(out, 600)))
						break
					} else {
						break // script completed
					}
					// Next kill: a random point early in what is left of the script.
					point = points[r.Intn(len(points))]
					hit = int64(1 + r.Intn(3))
				}
				// A last incarnation that only verifies.
				out, _, _ := c.child(db, lg, sc, 0, "none", 0)
				c.absorb(out, ctx)
				_ = os.RemoveAll(d)
			}
		}
	}
	c03RandomKills(c, r)
	c03Strace(c)
	c03Daemon(c, r)
	if run.Get("events_checked") == 0 || run.Get("kills") == 0 {
		run.Inconclusive("no kill or no logged event was checked")
	}
	return run.Finish()
}

// c03RandomKills kills looping children from outside at seeded random delays.
func c03RandomKills(c *c03Run, r *rand.Rand) {
	kills := c.cfg.N(40, 400)
	perDir := 5
	for k := 0; k < kills && c.run.NumViolations() < 5; k += perDir {
		d := filepath.Join(c.cfg.Work, fmt.Sprintf("rk-%d", k))
		_ = os.MkdirAll(d, 0o755)
		db, lg := filepath.Join(d, "db"), filepath.Join(d, "events.log")
		script := 100 + k
		for j := 0; j < perDir; j++ {
			args := []string{"C03child", "-tier", c.cfg.Tier, "-seed", fmt.Sprint(c.cfg.Seed), "-work", d + "-w", db, lg, fmt.Sprint(script), "8", "none", "0", "loop"}
			cmd := exec.Command(c.bin, args...)
			var buf strings.Builder
			cmd.Stdout, cmd.Stderr = &buf, &buf
			if err := cmd.Start(); err != nil {
				c.run.Inconclusive(err.Error())
				return
			}
			// Past start-up (~60-100 ms) and then anywhere in the next 150 ms of signing.
			time.Sleep(time.Duration(120+r.Intn(150)) * time.Millisecond)
			_ = cmd.Process.Kill()
			_ = cmd.Wait()
			c.absorb(buf.String(), map[string]any{"random_kill": k + j, "dir": d})
			c.run.Count("random_kills", 1)
			c.run.Eval(1)
		}
		out, _, _ := c.child(db, lg, script, 0, "none", 0)
		c.absorb(out, map[string]any{"random_kill_dir": d})
		_ = os.RemoveAll(d)
	}
	c.run.Distinct("parent-side SIGKILL at random instants")
}

var (
	stOpenRe  = regexp.MustCompile(`^(\d+)\s+openat\(.*?"([^"]*)", ([A-Z_|]+).*= (\d+)<([^>]*\.vlog)>`)
	stCallRe  = regexp.MustCompile(`^(\d+)\s+(p?write(?:64)?|fsync|fdatasync)\((\d+)<([^>]*)>(?:, "((?:[^"\\]|\\.)*)")?`)
	stResumed = regexp.MustCompile(`^(\d+)\s+<\.\.\. (p?write(?:64)?|fsync|fdatasync) resumed>`)
)

// unhexEscapes decodes a C-style string as printed by strace -x.
func unhexEscapes(s string) []byte {
	out := make([]byte, 0, len(s))
	for i := 0; i < len(s); i++ {
		if s[i] != '\\' || i+1 >= len(s) {
			out = append(out, s[i])
			continue
		}
		i++
		switch s[i] {
		case 'x':
			if i+2 < len(s) {
				b, _ := strconv.ParseUint(s[i+1:i+3], 16, 8)
				out = append(out, byte(b))
				i += 2
			}
		case 'n':
			out = append(out, '\n')
		case 't':
			out = append(out, '\t')
		case 'r':
			out = append(out, '\r')
		default:
			out = append(out, s[i])
		}
	}
	return out
}

func le64(v uint64) []byte {
	b := make([]byte, 8)
	for i := range b {
		b[i] = byte(v >> (8 * i))
	}
	return b
}

// c03Strace runs one child under strace and checks on the system-call stream that, when a SIGN/REL line is
// written, a write of exactly that key's record (key bytes and encoded epochs) to a value-log file has already
// COMPLETED, and that the file was opened O_DSYNC/O_SYNC or fsync-ed after that write.
func c03Strace(c *c03Run) {
	if _, err := exec.LookPath("strace"); err != nil {
		c.run.Inconclusive("strace not available")
		return
	}
	d := filepath.Join(c.cfg.Work, "strace")
	_ = os.MkdirAll(d, 0o755)
	db, lg, tr := filepath.Join(d, "db"), filepath.Join(d, "events.log"), filepath.Join(d, "trace.txt")
	args := []string{"-f", "-y", "-x", "-s", "4096", "-e", "trace=openat,write,pwrite64,fsync,fdatasync", "-o", tr,
		c.bin, "C03child", "-tier", c.cfg.Tier, "-seed", fmt.Sprint(c.cfg.Seed), "-work", d + "-w", db, lg, "900", fmt.Sprint(c.cfg.N(12, 60)), "none", "0"}
	out, err := exec.Command("strace", args...).CombinedOutput()
	if err != nil {
		c.run.Inconclusive(fmt.Sprintf("strace run failed: %v: %s", err, tail(string(out), 500)))
		return
	}
	c.absorb(string(out), "strace run")
	f, err := os.Open(tr)
	if err != nil {
		c.run.Inconclusive("no strace output")
		return
	}
	defer f.Close()
	type vwrite struct {
		payload []byte
		path    string
		synced  bool
	}
	syncOpened := map[string]bool{}
	var done []*vwrite              // completed value-log writes, in order of completion
	pending := map[string]*vwrite{} // pid -> unfinished value-log write
	pendingSync := map[string]string{}
	released, uncovered, unsynced := 0, 0, 0
	var firstBad string
	sc := bufio.NewScanner(f)
	sc.Buffer(make([]byte, 1<<22), 1<<22)
	complete := func(w *vwrite) {
		w.synced = syncOpened[w.path]
		done = append(done, w)
	}
	fsynced := func(path string) {
		for _, w := range done {
			if w.path == path {
				w.synced = true
			}
		}
	}
	for sc.Scan() {
		line := sc.Text()
		if m := stOpenRe.FindStringSubmatch(line); m != nil {
			syncOpened[m[5]] = strings.Contains(m[3], "O_DSYNC") || strings.Contains(m[3], "O_SYNC")
			c.run.Count("strace_vlog_opens", 1)
			if !syncOpened[m[5]] {
				c.run.Count("strace_vlog_opened_without_sync_flag", 1)
			}
			continue
		}
		if m := stResumed.FindStringSubmatch(line); m != nil {
			if w := pending[m[1]]; w != nil && strings.HasPrefix(m[2], "p") || w != nil && m[2] == "write" {
				complete(w)
				delete(pending, m[1])
			}
			if p, ok := pendingSync[m[1]]; ok && strings.HasSuffix(m[2], "sync") {
				fsynced(p)
				delete(pendingSync, m[1])
			}
			continue
		}
		m := stCallRe.FindStringSubmatch(line)
		if m == nil {
			continue
		}
		pid, call, path, payload := m[1], m[2], m[4], m[5]
		unfinished := strings.Contains(line, "<unfinished")
		switch {
		case strings.HasSuffix(call, "sync"):
			if strings.HasSuffix(path, ".vlog") {
				if unfinished {
					pendingSync[pid] = path
				} else {
					fsynced(path)
				}
			}
		case strings.HasSuffix(path, ".vlog"):
			w := &vwrite{payload: unhexEscapes(payload), path: path}
			if unfinished {
				pending[pid] = w
			} else {
				complete(w)
			}
		case strings.HasSuffix(path, "events.log"):
			text := string(unhexEscapes(payload))
			fs := strings.Fields(text)
			if len(fs) != 6 || (fs[0] != "SIGN" && fs[0] != "REL") {
				continue
			}
			released++
			key, _ := hex.DecodeString(fs[1])
			src, _ := strconv.ParseUint(fs[3], 10, 64)
			tgt, _ := strconv.ParseUint(fs[4], 10, 64)
			var rec, val []byte
			if fs[2] == "att" {
				rec = append(append([]byte{}, key...), 2)
				val = append(append([]byte{1}, le64(src)...), le64(tgt)...)
			} else {
				rec = append(append([]byte{}, key...), 3)
				val = append([]byte{1}, le64(tgt)...)
			}
			found, foundSynced := false, false
			for _, w := range done {
				if i := strings.Index(string(w.payload), string(rec)); i >= 0 && strings.Contains(string(w.payload[i:]), string(val)) {
					found = true
					if w.synced {
						foundSynced = true
					}
				}
			}
			if !found {
				uncovered++
				if firstBad == "" {
					firstBad = text
				}
			} else if !foundSynced {
				unsynced++
				if firstBad == "" {
					firstBad = text
				}
			}
		}
	}
	c.run.Count("strace_vlog_writes", len(done))
	c.run.Count("strace_sign_rel_lines", released)
	c.run.Count("strace_sign_rel_lines_matched_to_a_synchronous_record_write", released-uncovered-unsynced)
	c.run.Distinct("syscall-stream durability check")
	if uncovered+unsynced > 0 {
		c.run.Violate(fmt.Sprintf("on the system-call stream %d of %d SIGN/REL lines were written before a write of that record to the value log had completed, and %d more when that write was neither O_DSYNC nor fsync-ed (first: %s)",
			uncovered, released, unsynced, strings.TrimSpace(firstBad)), "see "+tr)
	} else {
		_ = os.RemoveAll(d)
	}
	if released == 0 || len(done) == 0 {
		c.run.Inconclusive(fmt.Sprintf("strace log shows %d value-log writes and %d SIGN/REL lines", len(done), released))
	}
}

// c03Daemon is the wire variant: the real daemon is SIGKILLed at random instants while clients sign over
// TLS/gRPC; after each restart a conflicting twin of every duty whose signature a client had RECEIVED before
// the kill must be refused.
func c03Daemon(c *c03Run, r *rand.Rand) {
	cycles := c.cfg.N(6, 120)
	w, err := NewWireRig(c.cfg, "c03-daemon", 8, nil)
	if err != nil {
		c.run.Inconclusive("cannot start daemon: " + err.Error())
		return
	}
	defer w.Close()
	env := NewWireEnv(c.run, w)
	if !env.WireKeys(8) {
		return
	}
	type rel struct {
		key      int
		prop     bool
		src, tgt uint64
	}
	var released []rel
	var mu sync.Mutex
	epoch := uint64(10)
	for cy := 0; cy < cycles && c.run.NumViolations() < 5; cy++ {
		stop := make(chan struct{})
		var wg sync.WaitGroup
		for g := 0; g < 4; g++ {
			wg.Add(1)
			go func(g int) {
				defer wg.Done()
				gr := rand.New(rand.NewSource(int64(cy*10 + g)))
				for {
					select {
					case <-stop:
						return
					default:
					}
					mu.Lock()
					epoch += 2
					e := epoch
					mu.Unlock()
					ki := 2*g + gr.Intn(2)
					if gr.Intn(3) == 0 {
						p := mkProp(env.Keys[ki], env.Names[ki], 0, 0xaa)
						p.Data.Slot = e
						if v, sig := env.SignProp(ViaWire, p); v == core.ResultSucceeded && len(sig) > 0 {
							mu.Lock()
							released = append(released, rel{key: ki, prop: true, tgt: e})
							mu.Unlock()
						}
					} else {
						a := mkAtt(env.Keys[ki], env.Names[ki], 0, 1, 0xaa)
						a.Data.Source.Epoch, a.Data.Target.Epoch = e, e+1
						if v, sig := env.SignAtt(ViaWire, a); v == core.ResultSucceeded && len(sig) > 0 {
							mu.Lock()
							released = append(released, rel{key: ki, src: e, tgt: e + 1})
							mu.Unlock()
						}
					}
				}
			}(g)
		}
		time.Sleep(time.Duration(30+r.Intn(200)) * time.Millisecond)
		w.D.Kill()
		close(stop)
		wg.Wait()
		c.run.Count("daemon_kills", 1)
		c.run.Eval(1)
		if err := w.D.Start(); err != nil {
			c.run.Count("daemon_restart_failed_fail_closed", 1)
			c.run.Inconclusive("daemon did not restart: " + err.Error())
			return
		}
		_ = w.Dial("")
		mu.Lock()
		check := append([]rel{}, released...)
		mu.Unlock()
		// Probe the most recent releases of every key (older ones are implied by monotonicity, and are probed in earlier cycles).
		seen := map[int]int{}
		for i := len(check) - 1; i >= 0; i-- {
			rl := check[i]
			if seen[rl.key] >= 3 {
				continue
			}
			seen[rl.key]++
			c.run.Count("daemon_probes", 1)
			if rl.prop {
				p := mkProp(env.Keys[rl.key], env.Names[rl.key], 0, 0x77)
				p.Data.Slot = rl.tgt
				if v, sig := env.SignProp(ViaWire, p); v == core.ResultSucceeded || len(sig) > 0 {
					c.run.Violate(fmt.Sprintf("after SIGKILL and restart the daemon signed a different proposal at slot %d although a client had received one before the kill", rl.tgt), rl)
				}
			} else {
				a := mkAtt(env.Keys[rl.key], env.Names[rl.key], 0, 1, 0x77)
				a.Data.Source.Epoch, a.Data.Target.Epoch = rl.src, rl.tgt
				if v, sig := env.SignAtt(ViaWire, a); v == core.ResultSucceeded || len(sig) > 0 {
					c.run.Violate(fmt.Sprintf("after SIGKILL and restart the daemon signed a different attestation %d->%d although a client had received one before the kill", rl.src, rl.tgt), rl)
				}
			}
		}
	}
	c.run.Count("daemon_signatures_received", len(released))
	c.run.Distinct("real daemon killed at random instants")
	if len(released) == 0 {
		c.run.Inconclusive("the daemon variant received no signature")
	}
}
