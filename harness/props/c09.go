package props

import (
	"context"
	"fmt"
	"runtime"
	"sync"
	"time"

	"verif/harness/evid"
	"verif/harness/oracle"
	"verif/harness/rig"

	"github.com/attestantio/dirk/core"
	"github.com/attestantio/dirk/util"
	pb "github.com/wealdtech/eth2-signer-api/pb/v1"
)

// C09 checks (1) no spurious refusal of advancing duties, (2) batch == one-at-a-time on twin
// instances, (3) util.Scatter covers [0,n) exactly once for every (n, GOMAXPROCS) of a grid.
func C09(cfg Cfg) int {
	run := evid.New("C09", cfg.Tier, cfg.Seed, "exploration")
	run.Rule = "(1) histories of well-formed authorised attestation/proposal requests near each key's watermark: every request the sequential specification calls advancing must be SUCCEEDED with a valid signature; " +
		"(2) batches of distinct keys (sizes 1..400, GOMAXPROCS 1..61) submitted as a batch to instance A and entry by entry to twin instance B with the same prior history must give equal verdict vectors; " +
		"(3) util.Scatter called for every n in 1..700 x GOMAXPROCS in 1..33,64,128: work extents must partition [0,n); distinct = verdict-class / batch cell / grid cell"
	run.Assume = []string{"sequential watermark specification oracle.WM transcribes the statement of C09"}
	defer runtime.GOMAXPROCS(runtime.GOMAXPROCS(0))
	c09Advancing(run, cfg)
	c09Twin(run, cfg)
	c09Scatter(run, cfg)
	c09Wire(run, cfg)
	return run.Finish()
}

func c09Advancing(run *evid.Run, cfg Cfg) {
	r := cfg.Rand("c09-adv")
	env, err := NewEnv(run, cfg, "c09a", rig.StackOpts{})
	if err != nil {
		run.Inconclusive(err.Error())
		return
	}
	defer env.Stack.Close()
	roots := [][]byte{Root32(0xaa), Root32(0xbb)}
	adoms := [][]byte{Dom(DomainAttester, 0), Dom(DomainAttester, 7)}
	pdoms := [][]byte{Dom(DomainProposer, 0)}
	histories := cfg.N(300, 6000)
	for h := 0; h < histories && run.NumViolations() < 5; h++ {
		env.FreshKeys(4)
		wm := make([]oracle.WM, 4)
		env.wm = wm
		env.profile = "dense"
		if h%5 == 4 {
			env.profile = "edge"
		}
		via := Via(h % 2)
		var hist []stepRec
		for s := 0; s < 50; s++ {
			p := r.Intn(100)
			switch {
			case p < 30:
				// Batch of distinct keys.
				n := 2 + r.Intn(3)
				perm := r.Perm(4)
				cs := make([]*AttCase, n)
				for i := range cs {
					cs[i] = genAtt(r, env, roots, adoms, perm[i])
				}
				res, sigs := env.SignAtts(via, cs)
				rec := stepRec{Step: s, Kind: "atts", Via: viaName(via)}
				for i, c := range cs {
					rec.Entries = append(rec.Entries, descAtt(c))
					if i < len(res) {
						rec.Results = append(rec.Results, res[i].String())
					}
				}
				if len(res) != n {
					run.Violate(fmt.Sprintf("batch of %d distinct keys returned %d results", n, len(res)), append(hist, rec))
					continue
				}
				// The verdicts of a batch are judged against the state before the batch (distinct keys).
				for i, c := range cs {
					c09JudgeAtt(run, c, res[i], sigs[i], &wm[perm[i]], "batch", append(hist, rec))
				}
				hist = append(hist, rec)
			case p < 65:
				ki := r.Intn(4)
				c := genAtt(r, env, roots, adoms, ki)
				if r.Intn(6) == 0 && !wm[ki].HasAtt {
					c.Data.Source.Epoch, c.Data.Target.Epoch = 0, 0 // genesis attestation
				}
				res, sig := env.SignAtt(via, c)
				rec := stepRec{Step: s, Kind: "att", Via: viaName(via), Entries: []string{descAtt(c)}, Results: []string{res.String()}}
				c09JudgeAtt(run, c, res, sig, &wm[ki], "single", append(hist, rec))
				hist = append(hist, rec)
			default:
				c := genProp(r, env, roots, pdoms)
				ki := keyIdx(env, c.Key)
				res, sig := env.SignProp(via, c)
				rec := stepRec{Step: s, Kind: "prop", Via: viaName(via), Entries: []string{descProp(c)}, Results: []string{res.String()}}
				run.Eval(1)
				adv := wm[ki].PropAdvancing(c.Data.Slot)
				run.Distinct(fmt.Sprintf("prop adv=%v slot:%s band:%s -> %s", adv, rel(wm[ki].HasProp, c.Data.Slot, wm[ki].MaxSlot), band(c.Data.Slot), res))
				if adv {
					run.Count("advancing", 1)
					root := c.SigningRoot()
					if res != core.ResultSucceeded {
						run.Violate(fmt.Sprintf("advancing proposal refused (%s): %s; signed so far for the key: %+v", res, descProp(c), wm[ki]), append(hist, rec))
					} else if ok, _ := oracle.VerifySig(c.Key.Pub, root[:], sig); !ok {
						run.Violate("advancing proposal answered with an invalid signature: "+descProp(c), append(hist, rec))
					}
				}
				if res == core.ResultSucceeded {
					wm[ki].SignedProp(c.Data.Slot)
				}
				hist = append(hist, rec)
			}
		}
		if h == 0 {
			run.Sample(map[string]any{"advancing_history": hist[:10]})
		}
	}
	if run.Get("advancing") == 0 {
		run.Inconclusive("no advancing request generated")
	}
}

func c09JudgeAtt(run *evid.Run, c *AttCase, res core.Result, sig []byte, w *oracle.WM, path string, hist []stepRec) {
	run.Eval(1)
	adv := w.AttAdvancing(c.Data.Source.Epoch, c.Data.Target.Epoch)
	run.Distinct(fmt.Sprintf("att %s adv=%v tgt:%s src:%s band:%s -> %s", path, adv, rel(w.HasAtt, c.Data.Target.Epoch, w.MaxTgt), rel(w.HasAtt, c.Data.Source.Epoch, w.MaxSrc), band(c.Data.Target.Epoch), res))
	if adv {
		run.Count("advancing", 1)
		root := c.SigningRoot()
		if res != core.ResultSucceeded {
			run.Violate(fmt.Sprintf("advancing attestation refused (%s): %s; signed so far for the key: %+v", res, descAtt(c), *w), hist)
		} else if ok, _ := oracle.VerifySig(c.Key.Pub, root[:], sig); !ok {
			run.Violate("advancing attestation answered with an invalid signature: "+descAtt(c), hist)
		}
	}
	if res == core.ResultSucceeded {
		w.SignedAtt(c.Data.Source.Epoch, c.Data.Target.Epoch)
	}
}

func c09Twin(run *evid.Run, cfg Cfg) {
	r := cfg.Rand("c09-twin")
	a, err := NewEnv(run, cfg, "c09twinA", rig.StackOpts{})
	if err != nil {
		run.Inconclusive(err.Error())
		return
	}
	defer a.Stack.Close()
	b, err := NewEnv(run, cfg, "c09twinB", rig.StackOpts{})
	if err != nil {
		run.Inconclusive(err.Error())
		return
	}
	defer b.Stack.Close()
	roots := [][]byte{Root32(0xaa), Root32(0xbb)}
	doms := [][]byte{Dom(DomainAttester, 0)}
	sizes := []int{1, 2, 3, 4, 5, 7, 8, 9, 15, 16, 17, 31, 33, 64, 65, 100, 127, 200, 257, 400}
	batches := cfg.N(200, 4000)
	for k := 0; k < batches && run.NumViolations() < 5; k++ {
		n := sizes[k%len(sizes)]
		if !cfg.Thorough() && n > 100 && k%3 != 0 {
			n = 1 + r.Intn(40)
		}
		procs := c08Procs[(k/len(sizes)+k)%len(c08Procs)]
		runtime.GOMAXPROCS(procs)
		a.FreshKeys(n)
		b.FreshKeys(n) // same family index sequence => same keys
		if a.Keys[0].Index != b.Keys[0].Index {
			run.Inconclusive("twin key sets diverged")
			return
		}
		a.wm, b.wm = nil, nil
		a.profile, b.profile = "dense", "dense"
		// Same prior history on both: one earlier single attestation for about half the keys.
		for i := 0; i < n; i++ {
			if r.Intn(2) == 0 {
				c := genAtt(r, a, roots, doms, i)
				ra, _ := a.SignAtt(ViaService, c)
				cb := *c
				cb.Key, cb.Name = b.Keys[i], b.Names[i]
				rb, _ := b.SignAtt(ViaService, &cb)
				if ra != rb {
					run.Violate(fmt.Sprintf("twin instances disagree on a single request: %s: %s vs %s", descAtt(c), ra, rb), nil)
				}
			}
		}
		cs := make([]*AttCase, n)
		for i := range cs {
			cs[i] = genAtt(r, a, roots, doms, i)
		}
		via := Via(k % 2)
		resA, _ := a.SignAtts(via, cs)
		resB := make([]core.Result, n)
		for i, c := range cs {
			cb := *c
			cb.Key, cb.Name = b.Keys[i], b.Names[i]
			resB[i], _ = b.SignAtt(via, &cb)
		}
		run.Eval(n)
		if len(resA) != n {
			run.Violate(fmt.Sprintf("batch of %d distinct keys returned %d results (GOMAXPROCS %d)", n, len(resA), procs), nil)
			continue
		}
		mixed := map[core.Result]bool{}
		for i := range cs {
			mixed[resB[i]] = true
			if resA[i] != resB[i] {
				run.Violate(fmt.Sprintf("batch verdict differs from one-at-a-time at position %d of %d (GOMAXPROCS %d, %s): batch=%s single=%s for %s",
					i, n, procs, viaName(via), resA[i], resB[i], descAtt(cs[i])), map[string]any{"n": n, "procs": procs, "position": i})
				break
			}
		}
		run.Distinct(fmt.Sprintf("twin n=%d P=%d %s verdict-kinds=%d", n, procs, viaName(via), len(mixed)))
		run.Count("twin_batches", 1)
		if k == 0 {
			run.Sample(map[string]any{"twin_batch_size": n, "gomaxprocs": procs, "entries": descAtt(cs[0]), "verdict_batch": resA[0].String(), "verdict_single": resB[0].String()})
		}
	}
}

func c09Scatter(run *evid.Run, cfg Cfg) {
	procsList := []int{}
	for p := 1; p <= 33; p++ {
		procsList = append(procsList, p)
	}
	procsList = append(procsList, 64, 128)
	maxN := cfg.N(700, 2000)
	calls := 0
	for _, p := range procsList {
		runtime.GOMAXPROCS(p)
		for n := 1; n <= maxN; n++ {
			var mu sync.Mutex
			cover := make([]int, n)
			bad := ""
			_, err := util.Scatter(n, func(offset int, entries int, _ *sync.RWMutex) (any, error) {
				mu.Lock()
				defer mu.Unlock()
				if offset < 0 || entries <= 0 || offset+entries > n {
					bad = fmt.Sprintf("extent (%d,%d) out of range", offset, entries)
					return nil, nil
				}
				for i := offset; i < offset+entries; i++ {
					cover[i]++
				}
				return nil, nil
			})
			calls++
			if err != nil {
				bad = "error: " + err.Error()
			}
			for i, c := range cover {
				if c != 1 && bad == "" {
					bad = fmt.Sprintf("index %d covered %d times", i, c)
				}
			}
			if bad != "" {
				run.Violate(fmt.Sprintf("util.Scatter(n=%d) with GOMAXPROCS=%d: %s", n, p, bad), map[string]any{"n": n, "procs": p})
				if run.NumViolations() > 5 {
					return
				}
			}
		}
		run.Distinct(fmt.Sprintf("scatter grid P=%d n=1..%d", p, maxN))
	}
	run.Eval(calls)
	run.Count("scatter_grid_calls", calls)
	run.Set("scatter_grid_exhaustive", fmt.Sprintf("n in 1..%d x GOMAXPROCS in 1..33,64,128", maxN))
}

// c09Wire sends large batches of advancing attestations to the real daemon over TLS/gRPC: whatever sits between
// the client and the rules (transport limits, interceptors, handler) must not refuse what one-at-a-time signs.
func c09Wire(run *evid.Run, cfg Cfg) {
	ca, err := rig.NewCA("verif-ca")
	if err != nil {
		run.Inconclusive(err.Error())
		return
	}
	const wallets, perWallet = 8, 64
	nd := map[string][]string{}
	perms := map[string][]string{}
	type acct struct {
		name string
		key  *rig.Key
	}
	var accts []acct
	for w := 0; w < wallets; w++ {
		wname := fmt.Sprintf("Big%d", w)
		perms[wname] = []string{"All"}
		for i := 0; i < perWallet; i++ {
			nd[wname] = append(nd[wname], fmt.Sprintf("v%d", i))
			accts = append(accts, acct{wname + "/" + fmt.Sprintf("v%d", i), rig.DetKey("ndw-"+wname, i)})
		}
	}
	port := rig.FreePort("127.0.0.1")
	d, err := rig.PrepareDaemon(rig.DaemonOpts{Dir: cfg.Dir("c09-wire"), ID: 1, IP: "127.0.0.1", Port: port, CA: ca,
		Peers: map[uint64]string{1: fmt.Sprintf("127.0.0.1:%d", port)}, Permissions: map[string]map[string][]string{"client1": perms}, NDWallets: nd, Race: true})
	if err != nil {
		run.Inconclusive("cannot prepare daemon: " + err.Error())
		return
	}
	if err := d.Start(); err != nil {
		run.Inconclusive("cannot start daemon: " + err.Error() + d.LogTail(300))
		return
	}
	defer d.Kill()
	crt, _ := ca.Issue(rig.CertOpts{CN: "client1"})
	conn, err := rig.Dial(d.Addr, rig.ClientTLS(ca, crt.TLS), "")
	if err != nil {
		run.Inconclusive(err.Error())
		return
	}
	defer conn.Close()
	signer := pb.NewSignerClient(conn)
	epoch := uint64(100)
	for _, n := range []int{1, 2, 17, 64, 200, 320, 400, 512} {
		for _, byKey := range []bool{false, true} {
			epoch += 2
			req := &pb.SignBeaconAttestationsRequest{}
			for i := 0; i < n; i++ {
				r := &pb.SignBeaconAttestationRequest{Domain: Dom(DomainAttester, 0), Data: &pb.AttestationData{Slot: epoch * 32, CommitteeIndex: uint64(i % 64), BeaconBlockRoot: Root32(9),
					Source: &pb.Checkpoint{Epoch: epoch, Root: Root32(1)}, Target: &pb.Checkpoint{Epoch: epoch + 1, Root: Root32(2)}}}
				if byKey {
					r.Id = &pb.SignBeaconAttestationRequest_PublicKey{PublicKey: accts[i].key.Pub}
				} else {
					r.Id = &pb.SignBeaconAttestationRequest_Account{Account: accts[i].name}
				}
				req.Requests = append(req.Requests, r)
			}
			ctx, cancel := context.WithTimeout(context.Background(), 120*time.Second)
			res, err := signer.SignBeaconAttestations(ctx, req)
			cancel()
			run.Eval(n)
			cell := fmt.Sprintf("wire batch n=%d by-key=%v", n, byKey)
			if err != nil {
				run.Violate(fmt.Sprintf("%s: a batch of advancing, authorised attestations was not answered: %v", cell, err), cell)
				continue
			}
			signed := 0
			for i, r := range res.GetResponses() {
				if r.GetState() == pb.ResponseState_SUCCEEDED {
					root := oracle.SigningRoot(oracle.AttestationDataRoot(epoch*32, uint64(i%64), Root32(9), epoch, Root32(1), epoch+1, Root32(2)), Dom(DomainAttester, 0))
					if ok, _ := oracle.VerifySig(accts[i].key.Pub, root[:], r.GetSignature()); ok {
						signed++
					}
				}
			}
			run.Distinct(fmt.Sprintf("%s signed=%d", cell, signed))
			run.Count("wire_batch_entries_signed", signed)
			if len(res.GetResponses()) != n || signed != n {
				run.Violate(fmt.Sprintf("%s: %d responses, %d valid signatures for %d advancing attestations", cell, len(res.GetResponses()), signed, n), cell)
			}
		}
	}
	if !d.Alive() {
		run.Violate("the daemon died while signing large batches: "+firstPanicLine(d.LogTail(20000)), nil)
	}
	daemonRaceReports(run, d, "large batches spread over the signer's workers")
}
