package props

import (
	"bufio"
	"context"
	"encoding/hex"
	"fmt"
	"math/rand"
	"os"
	"path/filepath"
	"strings"
	"sync"
	"sync/atomic"
	"syscall"
	"time"

	"verif/harness/evid"
	"verif/harness/rig"

	"github.com/rs/zerolog"
	pb "github.com/wealdtech/eth2-signer-api/pb/v1"
	"google.golang.org/grpc"
	"google.golang.org/grpc/codes"
	"google.golang.org/grpc/encoding"
	"google.golang.org/grpc/status"
	"google.golang.org/protobuf/proto"
	"google.golang.org/protobuf/types/known/emptypb"
)

var c20Methods = []string{
	"/v1.Signer/Sign", "/v1.Signer/Multisign", "/v1.Signer/SignBeaconAttestation", "/v1.Signer/SignBeaconAttestations", "/v1.Signer/SignBeaconProposal",
	"/v1.Lister/ListAccounts", "/v1.AccountManager/Unlock", "/v1.AccountManager/Lock", "/v1.AccountManager/Generate",
	"/v1.WalletManager/Unlock", "/v1.WalletManager/Lock",
	"/v1.DKG/Prepare", "/v1.DKG/Execute", "/v1.DKG/Commit", "/v1.DKG/Abort", "/v1.DKG/Contribute",
}

var c20Lens = []int{0, 1, 2, 3, 4, 5, 31, 32, 33, 47, 48, 49, 96, 4096}

func hBytes(r *rand.Rand, normal int) []byte {
	switch r.Intn(4) {
	case 0:
		return randBytes(r, c20Lens[r.Intn(len(c20Lens))])
	case 1:
		if r.Intn(3) == 0 {
			return nil
		}
	}
	return randBytes(r, normal)
}

// hText returns text-shaped hostile bytes for fields that are treated as text somewhere down the stack
// (passphrases are Unicode-normalised by the keystore encryptor): fragments of valid and broken UTF-8, combining
// marks in rising and falling class order, Hangul, characters with multi-segment decompositions.
func hText(r *rand.Rand) []byte {
	switch r.Intn(6) {
	case 0:
		return hBytes(r, 4)
	case 1:
		return []byte("pass")
	}
	frags := [][]byte{{0xf2}, {0xf0, 0x9f}, {0xe0}, {0xe2, 0x82}, {0xc3}, {0x80}, {0xff}, {0x00}, {0x7f}, []byte("a"), []byte("ü"), []byte("\u0360"), []byte("\u0320"), []byte("\u0300"),
		[]byte("\u0345"), []byte("\u0316"), []byte("\uAC00"), []byte("\u1161"), []byte("\u0F73"), []byte("\u0F75"), []byte("\u0F81"), []byte("\u1E9B\u0323"), []byte("\uFDFA"), []byte("\u2126")}
	var out []byte
	for n := 1 + r.Intn(12); n > 0; n-- {
		out = append(out, frags[r.Intn(len(frags))]...)
	}
	return out
}

func hNum(r *rand.Rand) uint64 {
	return []uint64{0, 1, 2, 1 << 31, 1<<32 - 1, 1<<63 - 1, 1 << 63, 1<<64 - 1, uint64(r.Intn(100)), r.Uint64()}[r.Intn(10)]
}

func hNum32(r *rand.Rand) uint32 {
	return []uint32{0, 1, 2, 3, 1 << 31, 1<<32 - 1, uint32(r.Intn(10))}[r.Intn(7)]
}

type c20Gen struct {
	r        *rand.Rand
	accounts []string // valid account names
	keys     [][]byte
	wallets  []string
}

func (g *c20Gen) name() string {
	r := g.r
	switch r.Intn(14) {
	case 0:
		return "Nowhere/acct"
	case 1:
		return "noslash"
	case 2:
		return "/x"
	case 3:
		return "x/"
	case 4:
		return ""
	case 5:
		return "Wallet1/.*(["
	case 6:
		return "Wallet1/" + strings.Repeat("a", 65536)
	case 7:
		return "Wallet1/acct0/extra/parts"
	case 8:
		return "D/new" + fmt.Sprint(r.Intn(1000))
	case 9:
		return "Wallet1/new" + fmt.Sprint(r.Intn(1000000))
	}
	return g.accounts[r.Intn(len(g.accounts))]
}

func (g *c20Gen) key() []byte {
	r := g.r
	switch r.Intn(8) {
	case 0:
		return randBytes(r, 48)
	case 1:
		return g.keys[0][:47]
	case 2:
		return append(append([]byte{}, g.keys[0]...), 1, 2, 3)
	case 3:
		return []byte{}
	}
	return g.keys[r.Intn(len(g.keys))]
}

func (g *c20Gen) domain() []byte {
	r := g.r
	d := hBytes(r, 32)
	if len(d) >= 4 && r.Intn(2) == 0 {
		copy(d, [][]byte{DomainAttester, DomainProposer, DomainExit, {2, 0, 0, 0}}[r.Intn(4)])
	}
	return d
}

func (g *c20Gen) signReq() *pb.SignRequest {
	q := &pb.SignRequest{Data: hBytes(g.r, 32), Domain: g.domain()}
	switch g.r.Intn(5) {
	case 0:
	case 1, 2:
		q.Id = &pb.SignRequest_PublicKey{PublicKey: g.key()}
	default:
		q.Id = &pb.SignRequest_Account{Account: g.name()}
	}
	return q
}

func (g *c20Gen) attData() *pb.AttestationData {
	r := g.r
	if r.Intn(12) == 0 {
		return nil
	}
	d := &pb.AttestationData{Slot: hNum(r), CommitteeIndex: hNum(r), BeaconBlockRoot: hBytes(r, 32)}
	if r.Intn(10) > 0 {
		d.Source = &pb.Checkpoint{Epoch: hNum(r), Root: hBytes(r, 32)}
	}
	if r.Intn(10) > 0 {
		d.Target = &pb.Checkpoint{Epoch: hNum(r), Root: hBytes(r, 32)}
	}
	return d
}

func (g *c20Gen) attReq() *pb.SignBeaconAttestationRequest {
	q := &pb.SignBeaconAttestationRequest{Domain: g.domain(), Data: g.attData()}
	switch g.r.Intn(5) {
	case 0:
	case 1, 2:
		q.Id = &pb.SignBeaconAttestationRequest_PublicKey{PublicKey: g.key()}
	default:
		q.Id = &pb.SignBeaconAttestationRequest_Account{Account: g.name()}
	}
	return q
}

func (g *c20Gen) batchSize() int {
	return []int{0, 1, 2, 2, 3, 17, 17, 64, 500, 3000}[g.r.Intn(10)]
}

// message builds a structure-aware hostile request for the method.
func (g *c20Gen) message(method string) proto.Message {
	r := g.r
	switch method {
	case "/v1.Signer/Sign":
		return g.signReq()
	case "/v1.Signer/Multisign":
		q := &pb.MultisignRequest{}
		for i, n := 0, g.batchSize(); i < n; i++ {
			if r.Intn(40) == 0 {
				q.Requests = append(q.Requests, nil)
			} else {
				q.Requests = append(q.Requests, g.signReq())
			}
		}
		return q
	case "/v1.Signer/SignBeaconAttestation":
		return g.attReq()
	case "/v1.Signer/SignBeaconAttestations":
		q := &pb.SignBeaconAttestationsRequest{}
		for i, n := 0, g.batchSize(); i < n; i++ {
			q.Requests = append(q.Requests, g.attReq())
		}
		return q
	case "/v1.Signer/SignBeaconProposal":
		q := &pb.SignBeaconProposalRequest{Domain: g.domain()}
		if r.Intn(10) > 0 {
			q.Data = &pb.BeaconBlockHeader{Slot: hNum(r), ProposerIndex: hNum(r), ParentRoot: hBytes(r, 32), StateRoot: hBytes(r, 32), BodyRoot: hBytes(r, 32)}
		}
		switch r.Intn(5) {
		case 0:
		case 1, 2:
			q.Id = &pb.SignBeaconProposalRequest_PublicKey{PublicKey: g.key()}
		default:
			q.Id = &pb.SignBeaconProposalRequest_Account{Account: g.name()}
		}
		return q
	case "/v1.Lister/ListAccounts":
		q := &pb.ListAccountsRequest{}
		for i, n := 0, []int{0, 1, 2, 5, 200}[r.Intn(5)]; i < n; i++ {
			q.Paths = append(q.Paths, []string{"Wallet1", "Wallet1/acct.*", "D", "", "/", "Wallet1/[", "Wallet1/(a|b", g.name(), strings.Repeat("W", 70000), "Empty", "Empty/new.*"}[r.Intn(11)])
		}
		return q
	case "/v1.AccountManager/Unlock":
		return &pb.UnlockAccountRequest{Account: g.name(), Passphrase: hText(r)}
	case "/v1.AccountManager/Lock":
		return &pb.LockAccountRequest{Account: g.name()}
	case "/v1.AccountManager/Generate":
		q := &pb.GenerateRequest{Account: g.name(), Passphrase: hText(r), Participants: hNum32(r), SigningThreshold: hNum32(r)}
		if r.Intn(3) == 0 {
			q.SigningThreshold = q.Participants
		}
		if r.Intn(12) == 0 {
			// A request that really creates an account (the write path of the account cache).
			q = &pb.GenerateRequest{Account: []string{"Wallet1", "Empty"}[r.Intn(2)] + "/new" + fmt.Sprint(r.Intn(1000000)), Passphrase: []byte("pass"), Participants: 1, SigningThreshold: 1}
		}
		if r.Intn(12) == 1 {
			// A distributed generation that really runs between the instances: fresh names, names that exist already
			// (a small pool, so retries happen) and names the wallet refuses only when the account is stored.
			name := []string{fmt.Sprintf("D/dist%d", r.Intn(6)), fmt.Sprintf("D/_under%d", r.Intn(1000)), fmt.Sprintf("D/dist%d", r.Intn(1000000)), "D/dist1/x"}[r.Intn(4)]
			q = &pb.GenerateRequest{Account: name, Passphrase: []byte("pass"), Participants: 2, SigningThreshold: 2}
		}
		return q
	case "/v1.WalletManager/Unlock":
		return &pb.UnlockWalletRequest{Wallet: g.name(), Passphrase: hText(r)}
	case "/v1.WalletManager/Lock":
		return &pb.LockWalletRequest{Wallet: g.name()}
	case "/v1.DKG/Prepare":
		q := &pb.PrepareRequest{Account: g.name(), Passphrase: hText(r), Threshold: hNum32(r)}
		for i, n := 0, []int{0, 1, 3, 100}[r.Intn(4)]; i < n; i++ {
			q.Participants = append(q.Participants, &pb.Endpoint{Id: hNum(r), Name: "x", Port: hNum32(r)})
		}
		return q
	case "/v1.DKG/Execute":
		return &pb.ExecuteRequest{Account: g.name()}
	case "/v1.DKG/Commit":
		return &pb.CommitRequest{Account: g.name(), ConfirmationData: hBytes(r, 32)}
	case "/v1.DKG/Abort":
		return &pb.AbortRequest{Account: g.name()}
	default:
		q := &pb.ContributeRequest{Account: g.name(), Secret: hBytes(r, 32)}
		for i, n := 0, []int{0, 1, 2, 50}[r.Intn(4)]; i < n; i++ {
			q.VerificationVector = append(q.VerificationVector, hBytes(r, 48))
		}
		return q
	}
}

// input produces the wire bytes of one hostile request (sometimes with byte-level mutations).
func (g *c20Gen) input() (string, []byte) {
	method := c20Methods[g.r.Intn(len(c20Methods))]
	b, err := proto.Marshal(g.message(method))
	if err != nil {
		return method, nil
	}
	if g.r.Intn(4) == 0 && len(b) > 0 {
		for i, n := 0, 1+g.r.Intn(4); i < n; i++ {
			switch g.r.Intn(3) {
			case 0:
				b[g.r.Intn(len(b))] ^= byte(1 << g.r.Intn(8))
			case 1:
				b = b[:g.r.Intn(len(b)+1)]
			default:
				p := g.r.Intn(len(b) + 1)
				b = append(b[:p:p], append(randBytes(g.r, 1+g.r.Intn(6)), b[p:]...)...)
			}
			if len(b) == 0 {
				break
			}
		}
	}
	return method, b
}

func c20Request(method string) proto.Message {
	switch method {
	case "/v1.Signer/Sign":
		return &pb.SignRequest{}
	case "/v1.Signer/Multisign":
		return &pb.MultisignRequest{}
	case "/v1.Signer/SignBeaconAttestation":
		return &pb.SignBeaconAttestationRequest{}
	case "/v1.Signer/SignBeaconAttestations":
		return &pb.SignBeaconAttestationsRequest{}
	case "/v1.Signer/SignBeaconProposal":
		return &pb.SignBeaconProposalRequest{}
	case "/v1.Lister/ListAccounts":
		return &pb.ListAccountsRequest{}
	case "/v1.AccountManager/Unlock":
		return &pb.UnlockAccountRequest{}
	case "/v1.AccountManager/Lock":
		return &pb.LockAccountRequest{}
	case "/v1.AccountManager/Generate":
		return &pb.GenerateRequest{}
	case "/v1.WalletManager/Unlock":
		return &pb.UnlockWalletRequest{}
	case "/v1.WalletManager/Lock":
		return &pb.LockWalletRequest{}
	case "/v1.DKG/Prepare":
		return &pb.PrepareRequest{}
	case "/v1.DKG/Execute":
		return &pb.ExecuteRequest{}
	case "/v1.DKG/Commit":
		return &pb.CommitRequest{}
	case "/v1.DKG/Abort":
		return &pb.AbortRequest{}
	}
	return &pb.ContributeRequest{}
}

// c20Dispatch decodes the wire bytes as the server would and calls the handler object.
func c20Dispatch(st *rig.Stack, ctx context.Context, method string, raw []byte) (string, error) {
	req := c20Request(method)
	if err := proto.Unmarshal(raw, req); err != nil {
		return "undecodable", nil
	}
	var res proto.Message
	var err error
	switch q := req.(type) {
	case *pb.SignRequest:
		res, err = st.SignerH.Sign(ctx, q)
	case *pb.MultisignRequest:
		res, err = st.SignerH.Multisign(ctx, q)
	case *pb.SignBeaconAttestationRequest:
		res, err = st.SignerH.SignBeaconAttestation(ctx, q)
	case *pb.SignBeaconAttestationsRequest:
		res, err = st.SignerH.SignBeaconAttestations(ctx, q)
	case *pb.SignBeaconProposalRequest:
		res, err = st.SignerH.SignBeaconProposal(ctx, q)
	case *pb.ListAccountsRequest:
		res, err = st.ListerH.ListAccounts(ctx, q)
	case *pb.UnlockAccountRequest:
		res, err = st.AccountH.Unlock(ctx, q)
	case *pb.LockAccountRequest:
		res, err = st.AccountH.Lock(ctx, q)
	case *pb.GenerateRequest:
		res, err = st.AccountH.Generate(ctx, q)
	case *pb.UnlockWalletRequest:
		res, err = st.WalletH.Unlock(ctx, q)
	case *pb.LockWalletRequest:
		res, err = st.WalletH.Lock(ctx, q)
	case *pb.PrepareRequest:
		var e *emptypb.Empty
		e, err = st.ReceiverH.Prepare(ctx, q)
		res = e
	case *pb.ExecuteRequest:
		var e *emptypb.Empty
		e, err = st.ReceiverH.Execute(ctx, q)
		res = e
	case *pb.CommitRequest:
		res, err = st.ReceiverH.Commit(ctx, q)
	case *pb.AbortRequest:
		var e *emptypb.Empty
		e, err = st.ReceiverH.Abort(ctx, q)
		res = e
	case *pb.ContributeRequest:
		res, err = st.ReceiverH.Contribute(ctx, q)
	}
	if err != nil {
		return "error", nil
	}
	if res != nil {
		if _, merr := proto.Marshal(res); merr != nil {
			return "", fmt.Errorf("response cannot be encoded: %w", merr)
		}
	}
	return "response", nil
}

// "Empty" has no account at start-up: accounts created in it live only in the fetcher's dynamic overlay.
var c20Wallets = map[string][]string{"Wallet1": {"canary", "acct0", "acct1", "acct2", "acct3"}, "Wallet2": {"acct0"}, "Empty": {}}

func c20NewGen(r *rand.Rand) *c20Gen {
	g := &c20Gen{r: r, wallets: []string{"Wallet1", "Wallet2", "D"}}
	for w, as := range c20Wallets {
		for i, a := range as {
			if a == "canary" {
				continue
			}
			g.accounts = append(g.accounts, w+"/"+a)
			g.keys = append(g.keys, rig.DetKey("ndw-"+w, i).Pub)
		}
	}
	return g
}

// c20ConcurrentMix hammers the state that requests share (the fetcher's dynamic account overlay, wallet and
// account lock flags) from several goroutines at once: listings and signing by key run while accounts are
// being created, locked and unlocked.  call issues one request and reports whether it was answered.
func c20ConcurrentMix(seconds int, seed int64, call func(method string, msg proto.Message) bool) (int64, bool) {
	var ops atomic.Int64
	var failed atomic.Bool
	stop := make(chan struct{})
	var wg sync.WaitGroup
	worker := func(f func(r *rand.Rand, i int) (string, proto.Message), id int) {
		wg.Add(1)
		go func() {
			defer wg.Done()
			r := rand.New(rand.NewSource(seed*100 + int64(id)))
			for i := 0; ; i++ {
				select {
				case <-stop:
					return
				default:
				}
				m, msg := f(r, i)
				if !call(m, msg) {
					failed.Store(true)
					return
				}
				ops.Add(1)
			}
		}()
	}
	lister := func(r *rand.Rand, _ int) (string, proto.Message) {
		return "/v1.Lister/ListAccounts", &pb.ListAccountsRequest{Paths: [][]string{{"Empty"}, {"Empty", "Wallet1"}, {"Wallet1", "Empty/new.*"}, {"D", "Empty"}}[r.Intn(4)]}
	}
	creator := func(wallet string) func(r *rand.Rand, i int) (string, proto.Message) {
		return func(r *rand.Rand, i int) (string, proto.Message) {
			return "/v1.AccountManager/Generate", &pb.GenerateRequest{Account: fmt.Sprintf("%s/mix%d-%d", wallet, seed, i), Passphrase: []byte("pass"), Participants: 1, SigningThreshold: 1}
		}
	}
	signer := func(r *rand.Rand, i int) (string, proto.Message) {
		key := rig.DetKey("ndw-Wallet1", 1+r.Intn(4)).Pub
		if r.Intn(3) == 0 {
			key = randBytes(r, 48) // unknown key: the lookup falls through to the dynamic overlay
		}
		return "/v1.Signer/Sign", &pb.SignRequest{Id: &pb.SignRequest_PublicKey{PublicKey: key}, Data: randBytes(r, 32), Domain: Dom([]byte{9, 0, 0, 0}, 1)}
	}
	locker := func(r *rand.Rand, i int) (string, proto.Message) {
		switch i % 4 {
		case 0:
			return "/v1.WalletManager/Lock", &pb.LockWalletRequest{Wallet: "Empty"}
		case 1:
			return "/v1.WalletManager/Unlock", &pb.UnlockWalletRequest{Wallet: "Empty", Passphrase: []byte("pass")}
		case 2:
			return "/v1.AccountManager/Lock", &pb.LockAccountRequest{Account: "Wallet1/acct1"}
		}
		return "/v1.AccountManager/Unlock", &pb.UnlockAccountRequest{Account: "Wallet1/acct1", Passphrase: []byte("pass")}
	}
	// Batches over several of the accounts the single-key signers use (multi-key requests overlapping single-key ones).
	var batchEpoch atomic.Uint64
	batchEpoch.Store(uint64(seed%1000)*1000 + 100000)
	batcher := func(r *rand.Rand, i int) (string, proto.Message) {
		n := 2 + r.Intn(3)
		sel := r.Perm(4)[:n]
		if i%2 == 0 {
			q := &pb.MultisignRequest{}
			for _, k := range sel {
				q.Requests = append(q.Requests, &pb.SignRequest{Id: &pb.SignRequest_PublicKey{PublicKey: rig.DetKey("ndw-Wallet1", 1+k).Pub}, Data: randBytes(r, 32), Domain: Dom([]byte{9, 0, 0, 0}, 2)})
			}
			return "/v1.Signer/Multisign", q
		}
		e := batchEpoch.Add(2)
		q := &pb.SignBeaconAttestationsRequest{}
		for _, k := range sel {
			q.Requests = append(q.Requests, &pb.SignBeaconAttestationRequest{Id: &pb.SignBeaconAttestationRequest_Account{Account: fmt.Sprintf("Wallet1/acct%d", k)}, Domain: Dom(DomainAttester, 0),
				Data: &pb.AttestationData{Slot: e * 32, BeaconBlockRoot: Root32(1), Source: &pb.Checkpoint{Epoch: e, Root: Root32(2)}, Target: &pb.Checkpoint{Epoch: e + 1, Root: Root32(3)}}})
		}
		return "/v1.Signer/SignBeaconAttestations", q
	}
	worker(batcher, 8)
	worker(batcher, 9)
	for i := 0; i < 3; i++ {
		worker(lister, i)
	}
	worker(creator("Empty"), 3)
	worker(creator("Wallet1"), 4)
	worker(signer, 5)
	worker(signer, 6)
	worker(locker, 7)
	time.Sleep(time.Duration(seconds) * time.Second)
	close(stop)
	done := make(chan struct{})
	go func() { wg.Wait(); close(done) }()
	select {
	case <-done:
	case <-time.After(60 * time.Second):
		return ops.Load(), false
	}
	return ops.Load(), !failed.Load()
}

func init() {
	Children["C20child"] = c20Child
	Children["C20race"] = func(cfg Cfg) int {
		c, err := rig.NewCluster(rig.ClusterOpts{Dir: filepath.Join(cfg.Work, "cluster"), IDs: []uint64{1, 2}, NDWallets: c20Wallets})
		if err != nil {
			fmt.Println("cannot build cluster:", err)
			return 3
		}
		st := c.Inst[1].Stack
		ctx := rig.HandlerCtx("client1", "10.0.0.1")
		ops, _ := c20ConcurrentMix(cfg.N(4, 20), cfg.Seed, func(method string, msg proto.Message) bool {
			raw, _ := proto.Marshal(msg)
			_, _ = c20Dispatch(st, ctx, method, raw)
			return true
		})
		fmt.Printf("RACE-CHILD operations %d\n", ops)
		return 0
	}
}

// c20Child is the in-process driver: it logs every input before executing it.
func c20Child(cfg Cfg) int {
	_ = syscall.Setrlimit(syscall.RLIMIT_AS, &syscall.Rlimit{Cur: 8 << 30, Max: 8 << 30})
	total := 1000
	if len(cfg.Args) > 0 {
		fmt.Sscan(cfg.Args[0], &total)
	}
	trace := len(cfg.Args) > 1 && cfg.Args[1] == "trace"
	c, err := rig.NewCluster(rig.ClusterOpts{Dir: filepath.Join(cfg.Work, "cluster"), IDs: []uint64{1, 2}, NDWallets: c20Wallets})
	if err != nil {
		fmt.Println("CHILD-INCONCLUSIVE cannot build cluster:", err)
		return 3
	}
	if trace {
		// The services captured their log level at construction; raise the global level so that Trace() calls evaluate their arguments.
		rig.TraceLoggingToDiscard()
		zerolog.SetGlobalLevel(zerolog.TraceLevel)
	}
	st := c.Inst[1].Stack
	lf, err := os.OpenFile(filepath.Join(cfg.Work, "inputs.log"), os.O_CREATE|os.O_WRONLY|os.O_APPEND, 0o644)
	if err != nil {
		return 3
	}
	il := &inputLog{f: lf}
	pf, _ := os.OpenFile(filepath.Join(cfg.Work, "panics.log"), os.O_CREATE|os.O_WRONLY|os.O_APPEND, 0o644)
	panicsLogged := 0
	g := c20NewGen(cfg.Rand("c20-" + strings.Join(cfg.Args, "-")))
	ctx := rig.HandlerCtx("client1", "10.0.0.1")
	counts := map[string]int{}
	canaryInner := func(i int) bool {
		res, err := st.SignerH.Sign(ctx, &pb.SignRequest{Id: &pb.SignRequest_Account{Account: "Wallet1/canary"}, Data: Root32(byte(i)), Domain: Dom([]byte{9, 0, 0, 0}, 1)})
		if err != nil || res.GetState() != pb.ResponseState_SUCCEEDED {
			fmt.Printf("CHILD-VIOLATION after input %d the canary signing request is answered %v / %v\n", i, res.GetState(), err)
			return false
		}
		lres, err := st.ListerH.ListAccounts(ctx, &pb.ListAccountsRequest{Paths: []string{"Wallet1"}})
		if err != nil || len(lres.GetAccounts()) < 5 {
			fmt.Printf("CHILD-VIOLATION after input %d the canary listing returns %d accounts / %v\n", i, len(lres.GetAccounts()), err)
			return false
		}
		return true
	}
	canary := func(i int) bool {
		ch := make(chan bool, 1)
		go func() { ch <- canaryInner(i) }()
		select {
		case ok := <-ch:
			return ok
		case <-time.After(45 * time.Second):
			fmt.Printf("CHILD-VIOLATION after input %d the canary requests are not answered within 45 s\n", i)
			return false
		}
	}
	for i := 0; i < total; i++ {
		method, raw := g.input()
		if raw == nil {
			continue
		}
		il.add(fmt.Sprintf("%d %s %s\n", i, method, hex.EncodeToString(raw)))
		type dres struct {
			outcome string
			err     error
		}
		ch := make(chan dres, 1)
		go func() {
			// A panic in the goroutine that runs the handler is what the server's interceptor chain would see:
			// whether the daemon survives it is decided by replaying the input against the real daemon (driver 2).
			// A panic in any other goroutine still ends this process and is reported as a crash.
			defer func() {
				if p := recover(); p != nil {
					fmt.Printf("CHILD-PANIC %d %s %s\n", i, method, strings.SplitN(fmt.Sprint(p), "\n", 2)[0])
					if pf != nil && panicsLogged < 200 {
						panicsLogged++
						_, _ = pf.Write([]byte(fmt.Sprintf("%d %s %s\n", i, method, hex.EncodeToString(raw))))
					}
					ch <- dres{"handler-panic", nil}
				}
			}()
			o, e := c20Dispatch(st, ctx, method, raw)
			ch <- dres{o, e}
		}()
		var outcome string
		select {
		case d := <-ch:
			outcome = d.outcome
			if d.err != nil {
				fmt.Printf("CHILD-VIOLATION input %d %s: %v\n", i, method, d.err)
			}
		case <-time.After(45 * time.Second):
			fmt.Printf("CHILD-VIOLATION input %d %s was not answered within 45 s: the instance stopped answering\n", i, method)
			return 4
		}
		counts[method+" "+outcome]++
		if i%50 == 49 && !canary(i) {
			return 4
		}
	}
	// Concurrent phase: the last requests before a death are whatever the workers were doing.
	il.add("concurrent-mix phase: listings and signing by key while accounts are created, locked and unlocked\n")
	ops, answered := c20ConcurrentMix(3, cfg.Seed+int64(len(cfg.Args[0])), func(method string, msg proto.Message) bool {
		raw, _ := proto.Marshal(msg)
		ch := make(chan struct{}, 1)
		go func() {
			defer func() {
				if p := recover(); p != nil {
					// Decided by the concurrent phase against the real daemon (driver 2), see above.
					fmt.Printf("CHILD-PANIC concurrent %s %s\n", method, strings.SplitN(fmt.Sprint(p), "\n", 2)[0])
					ch <- struct{}{}
				}
			}()
			_, _ = c20Dispatch(st, ctx, method, raw)
			ch <- struct{}{}
		}()
		select {
		case <-ch:
			return true
		case <-time.After(45 * time.Second):
			fmt.Printf("CHILD-VIOLATION a %s request issued concurrently with others was not answered within 45 s\n", method)
			return false
		}
	})
	fmt.Printf("STAT concurrent_mix_requests %d\n", ops)
	if !answered || !canary(total) {
		return 4
	}
	for k, v := range counts {
		fmt.Printf("STAT %s %d\n", strings.ReplaceAll(k, " ", ":"), v)
		fmt.Printf("DISTINCT in-process %s\n", k)
	}
	fmt.Printf("STAT inputs %d\n", total)
	fmt.Printf("STAT completed 1\n")
	return 0
}

// inputLog records every input before it runs; only the last one matters for attribution, so the file starts
// over when it grows beyond 256 MiB (long runs wrote gigabytes).
type inputLog struct {
	f *os.File
	n int64
}

func (l *inputLog) add(line string) {
	if l.f == nil {
		return
	}
	if l.n > 256<<20 {
		_ = l.f.Truncate(0)
		l.n = 0
	}
	m, _ := l.f.Write([]byte(line))
	l.n += int64(m)
}

// rawCodec passes bytes through gRPC untouched so that arbitrary encodings can be sent.
type rawCodec struct{}

func (rawCodec) Marshal(v any) ([]byte, error) { return *(v.(*[]byte)), nil }
func (rawCodec) Unmarshal(data []byte, v any) error {
	*(v.(*[]byte)) = append([]byte{}, data...)
	return nil
}
func (rawCodec) Name() string { return "proto" }

var _ encoding.Codec = rawCodec{}

// lastInput reads the last logged input of a child.
func lastInput(path string) (string, string) {
	f, err := os.Open(path)
	if err != nil {
		return "", ""
	}
	defer f.Close()
	sc := bufio.NewScanner(f)
	sc.Buffer(make([]byte, 1<<24), 1<<24)
	last := ""
	for sc.Scan() {
		last = sc.Text()
	}
	fs := strings.SplitN(last, " ", 3)
	if len(fs) == 3 {
		return fs[0] + " " + fs[1], fs[2]
	}
	return last, ""
}

// C20 hunts for crashes with structure-aware hostile inputs, in-process and over the wire.
func C20(cfg Cfg) int {
	run := evid.New("C20", cfg.Tier, cfg.Seed, "exploration")
	run.Rule = "structure-aware hostile requests for all 16 RPC methods (absent fields, byte fields of lengths 0..4096 incl. 1-5/31/33/47/49, numeric extremes, batches of 0..3000 entries, valid/unknown/malformed/huge names, short/long/unknown keys, slashable and other domain types) plus byte-level mutations of their encodings; " +
		"driver 1 decodes each input as the server does and calls the real handler objects of a real instance in a child process under an 8 GiB address-space cap (every input is logged before it runs, half of the batches with trace logging switched on); driver 2 sends the same kind of stream as raw bytes over TLS/gRPC to the real daemon (under the same cap), DKG messages as a non-peer; after every 50 inputs a canary request must still be answered correctly; a death is attributed to the last logged input; distinct = (driver, method, outcome) classes"
	run.Assume = []string{"a crash is a process death or a canary that is no longer answered; responses and errors are both fine"}
	bin := os.Getenv("VH_BIN")
	if bin == "" {
		bin = "/verif/.bin/vh"
	}
	t0 := time.Now()
	// Inputs on which a handler panicked in-process; the real daemon decides whether that is a crash.
	var candidates [][2]string
	batches := cfg.N(4, 24)
	per := cfg.N(2500, 20000)
	for b := 0; b < batches && run.NumViolations() < 3; b++ {
		dir := filepath.Join(cfg.Work, fmt.Sprintf("inproc-%d", b))
		mode := "notrace"
		if b%2 == 1 {
			mode = "trace"
		}
		res := runChild(cfg, bin, "C20child", dir, 15*time.Minute, nil, fmt.Sprint(per), mode, fmt.Sprint(b))
		n := absorbChild(run, res, "inproc_", "")
		if data, err := os.ReadFile(filepath.Join(dir, "panics.log")); err == nil {
			for _, l := range strings.Split(string(data), "\n") {
				if fs := strings.SplitN(l, " ", 3); len(fs) == 3 && len(candidates) < 400 {
					candidates = append(candidates, [2]string{fs[1], fs[2]})
				}
			}
		}
		run.Count("inproc_handler_panics", strings.Count(res.Out, "CHILD-PANIC "))
		if res.TimedOut {
			what, hexIn := lastInput(filepath.Join(dir, "inputs.log"))
			run.Violate("the instance stopped answering (watchdog) at input "+what, map[string]any{"input": what, "hex": hexIn, "output": tail(res.Out, 3000)})
			continue
		}
		if strings.Contains(res.Out, "CHILD-INCONCLUSIVE") {
			run.Inconclusive(tail(res.Out, 300))
			continue
		}
		if res.Err != nil && n == 0 {
			what, hexIn := lastInput(filepath.Join(dir, "inputs.log"))
			run.Violate("the instance crashed on input "+what+": "+firstPanicLine(res.Out), map[string]any{"input": what, "hex": hexIn, "output": tail(res.Out, 4000)})
		}
		if res.Err == nil {
			_ = os.RemoveAll(dir)
		}
	}
	run.Eval(run.Get("inproc_inputs"))
	run.Set("inproc_wall_s", time.Since(t0).Seconds())
	t1 := time.Now()
	c20Wire(run, cfg, candidates)
	run.Set("wire_wall_s", time.Since(t1).Seconds())
	raceChild(run, cfg, "C20race")
	if run.Get("inproc_inputs") == 0 || run.Get("wire_inputs") == 0 {
		run.Inconclusive("a driver executed no input")
	}
	return run.Finish()
}

func firstPanicLine(out string) string {
	for _, l := range strings.Split(out, "\n") {
		if strings.HasPrefix(l, "panic:") || strings.HasPrefix(l, "fatal error:") {
			return l
		}
	}
	return "(no panic line)"
}

// c20Wire sends raw hostile bytes to the real daemon.
func c20Wire(run *evid.Run, cfg Cfg, candidates [][2]string) {
	ca, err := rig.NewCA("verif-ca")
	if err != nil {
		run.Inconclusive(err.Error())
		return
	}
	dir := cfg.Dir("c20-wire")
	port := rig.FreePort("127.0.0.1")
	d, err := rig.PrepareDaemon(rig.DaemonOpts{Dir: dir, ID: 1, IP: "127.0.0.1", Port: port, CA: ca,
		// Peers 2 and 3 are configured but not running (nothing listens on their ports): a client's distributed
		// Generate gets as far as the first message to them, fails there, and must be answered every time.
		Peers:       map[uint64]string{1: fmt.Sprintf("127.0.0.1:%d", port), 2: fmt.Sprintf("127.0.0.2:%d", rig.FreePort("127.0.0.2")), 3: fmt.Sprintf("127.0.0.3:%d", rig.FreePort("127.0.0.3"))},
		Permissions: map[string]map[string][]string{"client1": {".*": {"All"}}},
		NDWallets:   c20Wallets, DistWallets: []string{"D"},
		Wrapper: []string{"prlimit", "--as=8589934592"}, LogLevel: "trace"})
	if err != nil {
		run.Inconclusive(err.Error())
		return
	}
	if err := d.Start(); err != nil {
		run.Inconclusive("cannot start daemon: " + err.Error() + d.LogTail(500))
		return
	}
	defer d.Kill()
	crt, _ := ca.Issue(rig.CertOpts{CN: "client1"})
	conn, err := rig.Dial(d.Addr, rig.ClientTLS(ca, crt.TLS), "")
	if err != nil {
		run.Inconclusive(err.Error())
		return
	}
	defer conn.Close()
	g := c20NewGen(cfg.Rand("c20-wire"))
	total := cfg.N(1500, 40000)
	signer, lister := pb.NewSignerClient(conn), pb.NewListerClient(conn)
	lf, _ := os.OpenFile(filepath.Join(dir, "inputs.log"), os.O_CREATE|os.O_WRONLY|os.O_APPEND, 0o644)
	il := &inputLog{f: lf}
	// Known-nasty inputs first (regression seeds of earlier findings), then the in-process panic candidates, then
	// the generated stream.
	type pre struct{ method, hexIn, origin string }
	var pres []pre
	for _, sd := range c20RegressionSeeds() {
		pres = append(pres, pre{sd[0], sd[1], "regression seed"})
	}
	for _, c := range candidates {
		pres = append(pres, pre{c[0], c[1], "input on which the handler panicked in-process"})
	}
	for k, pi := range pres {
		raw, err := hex.DecodeString(pi.hexIn)
		if err != nil {
			continue
		}
		il.add(fmt.Sprintf("pre%d %s %s\n", k, pi.method, pi.hexIn))
		var reply []byte
		ctx, cancel := context.WithTimeout(context.Background(), 60*time.Second)
		err = conn.Invoke(ctx, pi.method, &raw, &reply, grpc.ForceCodec(rawCodec{}), grpc.MaxCallRecvMsgSize(64<<20))
		cancel()
		run.Eval(1)
		run.Count("wire_replayed_inputs", 1)
		time.Sleep(30 * time.Millisecond)
		if !d.Alive() {
			run.Violate(fmt.Sprintf("the daemon died on %s (%s): %s", pi.method, pi.origin, firstPanicLine(d.LogTail(40000))),
				map[string]any{"method": pi.method, "hex": pi.hexIn, "origin": pi.origin, "daemon_log_tail": d.LogTail(3000)})
			return
		}
		outcome := "response"
		if err != nil {
			outcome = "error"
			if status.Code(err) == codes.Internal {
				// What the server's recovery interceptor answers after a handler panic.
				run.Count("wire_replay_internal_errors", 1)
			}
		}
		run.Distinct(fmt.Sprintf("wire replay (%s) %s %s", pi.origin, pi.method, outcome))
	}
	for i := 0; i < total; i++ {
		method, raw := g.input()
		if raw == nil {
			continue
		}
		il.add(fmt.Sprintf("%d %s %s\n", i, method, hex.EncodeToString(raw)))
		var reply []byte
		ctx, cancel := context.WithTimeout(context.Background(), 60*time.Second)
		err := conn.Invoke(ctx, method, &raw, &reply, grpc.ForceCodec(rawCodec{}), grpc.MaxCallRecvMsgSize(64<<20))
		cancel()
		outcome := "response"
		if err != nil {
			outcome = "error"
		}
		run.Distinct(fmt.Sprintf("wire %s %s", method, outcome))
		run.Count("wire_inputs", 1)
		run.Eval(1)
		dead := !d.Alive()
		if !dead && i%50 == 49 {
			ctx, cancel := context.WithTimeout(context.Background(), 20*time.Second)
			res, err := signer.Sign(ctx, &pb.SignRequest{Id: &pb.SignRequest_Account{Account: "Wallet1/canary"}, Data: Root32(byte(i)), Domain: Dom([]byte{9, 0, 0, 0}, 1)})
			lres, lerr := lister.ListAccounts(ctx, &pb.ListAccountsRequest{Paths: []string{"Wallet1"}})
			cancel()
			run.Count("wire_canaries", 1)
			if err != nil || res.GetState() != pb.ResponseState_SUCCEEDED || lerr != nil || len(lres.GetAccounts()) < 5 {
				time.Sleep(200 * time.Millisecond)
				if d.Alive() {
					run.Violate(fmt.Sprintf("after wire input %d (%s) the daemon no longer answers the canary correctly: %v %v / %v %d", i, method, res.GetState(), err, lerr, len(lres.GetAccounts())),
						map[string]any{"method": method, "hex": hex.EncodeToString(raw)})
					return
				}
				dead = true
			}
		}
		if dead {
			run.Violate(fmt.Sprintf("the daemon died on wire input %d (%s): %s", i, method, firstPanicLine(d.LogTail(20000))),
				map[string]any{"method": method, "hex": hex.EncodeToString(raw), "daemon_log_tail": d.LogTail(3000)})
			return
		}
	}
	// Well-formed distributed Generate requests while the other participants are unreachable: each one fails, and
	// each one is answered - the fiftieth like the first.  (A request that is still unanswered when its 45 s deadline
	// expires, after its predecessors were answered at once, is a caller left without response or error.)
	am := pb.NewAccountManagerClient(conn)
	for i := 0; i < 50; i++ {
		ctx, cancel := context.WithTimeout(context.Background(), 45*time.Second)
		res, err := am.Generate(ctx, &pb.GenerateRequest{Account: fmt.Sprintf("D/unreachable-%d", i), Passphrase: []byte("pass"), Participants: 3, SigningThreshold: 2})
		expired := ctx.Err() != nil
		cancel()
		run.Eval(1)
		run.Count("wire_generate_with_unreachable_peers", 1)
		run.Distinct(fmt.Sprintf("wire generate with unreachable peers: state=%v err=%v", res.GetState(), err != nil))
		if !d.Alive() {
			run.Violate("the daemon died on a distributed Generate whose peers are unreachable: "+firstPanicLine(d.LogTail(40000)), map[string]any{"daemon_log_tail": d.LogTail(3000)})
			return
		}
		if expired {
			run.Violate(fmt.Sprintf("distributed Generate number %d with unreachable peers was not answered within 45 s; the %d before it were answered", i+1, i),
				map[string]any{"request": i + 1, "account": fmt.Sprintf("D/unreachable-%d", i)})
			return
		}
	}
	// Concurrent phase over the wire.
	ops, answered := c20ConcurrentMix(cfg.N(4, 30), cfg.Seed, func(method string, msg proto.Message) bool {
		raw, _ := proto.Marshal(msg)
		var reply []byte
		ctx, cancel := context.WithTimeout(context.Background(), 60*time.Second)
		defer cancel()
		err := conn.Invoke(ctx, method, &raw, &reply, grpc.ForceCodec(rawCodec{}))
		if err != nil && ctx.Err() != nil {
			return false
		}
		return d.Alive()
	})
	run.Count("wire_concurrent_mix_requests", int(ops))
	run.Distinct("wire concurrent mix")
	if !d.Alive() {
		run.Violate("the daemon died while listings, signing by key, account creation and lock/unlock ran concurrently: "+firstPanicLine(d.LogTail(40000)), map[string]any{"daemon_log_tail": d.LogTail(3000)})
		return
	}
	if !answered {
		run.Violate("the daemon stopped answering while listings, signing by key, account creation and lock/unlock ran concurrently", nil)
		return
	}
	run.Sample(map[string]any{"method": "/v1.Signer/Sign", "example": "account=Wallet1/acct0 data(32 bytes) domain(3 bytes)"})
}

func init() {
	// C20replay <file>: dispatches the logged inputs of a file ("<n> <method> <hex>" per line) one after the other
	// to a fresh in-process instance; a crash ends the process with the Go runtime's panic report.
	Children["C20replay"] = func(cfg Cfg) int {
		if len(cfg.Args) == 0 {
			return 3
		}
		data, err := os.ReadFile(cfg.Args[0])
		if err != nil {
			fmt.Println(err)
			return 3
		}
		c, err := rig.NewCluster(rig.ClusterOpts{Dir: filepath.Join(cfg.Work, "cluster"), IDs: []uint64{1, 2}, NDWallets: c20Wallets})
		if err != nil {
			fmt.Println("cannot build cluster:", err)
			return 3
		}
		ctx := rig.HandlerCtx("client1", "10.0.0.1")
		for _, l := range strings.Split(string(data), "\n") {
			fs := strings.SplitN(strings.TrimSpace(l), " ", 3)
			if len(fs) != 3 {
				continue
			}
			raw, err := hex.DecodeString(fs[2])
			if err != nil {
				continue
			}
			o, e := c20Dispatch(c.Inst[1].Stack, ctx, fs[1], raw)
			fmt.Printf("input %s %s -> %s %v\n", fs[0], fs[1], o, e)
		}
		return 0
	}
}

// c20RegressionSeeds are inputs that once crashed the daemon (see known_findings.json); they are replayed against
// the real daemon in every run.
func c20RegressionSeeds() [][2]string {
	if os.Getenv("VERIF_SKIP_REGRESSION_SEEDS") != "" {
		// Only for validating the harness itself on a tree that still has an old defect.
		return nil
	}
	unlock := func(account string, pass []byte) string {
		raw, _ := proto.Marshal(&pb.UnlockAccountRequest{Account: account, Passphrase: pass})
		return hex.EncodeToString(raw)
	}
	wunlock := func(wallet string, pass []byte) string {
		raw, _ := proto.Marshal(&pb.UnlockWalletRequest{Wallet: wallet, Passphrase: pass})
		return hex.EncodeToString(raw)
	}
	nasty := []byte{0xf2, 0xcd, 0xa0, 0xcc, 0xa0} // truncated 4-byte lead followed by two combining marks of decreasing class
	return [][2]string{
		{"/v1.AccountManager/Lock", func() string {
			raw, _ := proto.Marshal(&pb.LockAccountRequest{Account: "Wallet1/acct0"})
			return hex.EncodeToString(raw)
		}()},
		{"/v1.AccountManager/Unlock", unlock("Wallet1/acct0", nasty)},
		{"/v1.WalletManager/Unlock", wunlock("Wallet1", nasty)},
		{"/v1.AccountManager/Unlock", unlock("Wallet1/acct0", []byte("pass"))},
	}
}
