package props

import (
	"context"
	"fmt"
	"strings"
	"sync"

	"verif/harness/evid"
	"verif/harness/oracle"
	"verif/harness/rig"

	"github.com/attestantio/dirk/core"
	"github.com/attestantio/dirk/rules"
)

type c14Duty struct {
	att  *rules.SignBeaconAttestationData
	prop *rules.SignBeaconProposalData
}

func (d c14Duty) root() [32]byte {
	if d.att != nil {
		return oracle.SigningRoot(oracle.AttestationDataRoot(d.att.Slot, d.att.CommitteeIndex, d.att.BeaconBlockRoot, d.att.Source.Epoch, d.att.Source.Root, d.att.Target.Epoch, d.att.Target.Root), d.att.Domain)
	}
	return oracle.SigningRoot(oracle.BlockHeaderRoot(d.prop.Slot, d.prop.ProposerIndex, d.prop.ParentRoot, d.prop.StateRoot, d.prop.BodyRoot), d.prop.Domain)
}

func c14Att(src, tgt uint64, fill byte) c14Duty {
	return c14Duty{att: &rules.SignBeaconAttestationData{Domain: Dom(DomainAttester, 0), Slot: tgt * 32, CommitteeIndex: 1, BeaconBlockRoot: Root32(fill),
		Source: &rules.Checkpoint{Epoch: src, Root: Root32(1)}, Target: &rules.Checkpoint{Epoch: tgt, Root: Root32(2)}}}
}

func c14Prop(slot uint64, fill byte) c14Duty {
	return c14Duty{prop: &rules.SignBeaconProposalData{Domain: Dom(DomainProposer, 0), Slot: slot, ProposerIndex: 1, ParentRoot: Root32(3), StateRoot: Root32(4), BodyRoot: Root32(fill)}}
}

// The genesis kinds come first, while the fresh account has no history: two different attestations with source and
// target epoch 0, two different blocks at slot 0 (the stored value 0 must not read as "nothing signed").  They can be
// repeated on the same account: whatever was signed in an earlier case, both new duties conflict with it too.
var c14Kinds = []string{"genesis-double-vote", "slot0-double-proposal", "double-vote", "d1-surrounds-d2", "d2-surrounds-d1", "double-proposal"}

func c14Pair(kind string, base uint64) (c14Duty, c14Duty) {
	switch kind {
	case "genesis-double-vote":
		return c14Att(0, 0, byte(base/10*2+1)), c14Att(0, 0, byte(base/10*2+2))
	case "slot0-double-proposal":
		return c14Prop(0, byte(base/10*2+1)), c14Prop(0, byte(base/10*2+2))
	case "double-vote":
		return c14Att(base, base+1, 0xaa), c14Att(base, base+1, 0xbb)
	case "d1-surrounds-d2":
		return c14Att(base, base+5, 0xaa), c14Att(base+1, base+4, 0xbb)
	case "d2-surrounds-d1":
		return c14Att(base+1, base+4, 0xaa), c14Att(base, base+5, 0xbb)
	}
	return c14Prop(base, 0xaa), c14Prop(base, 0xbb)
}

// routing modes per instance
// The "batched" modes send the second duty inside a two-entry batch next to an unrelated, approvable
// attestation of another account of the instance (before or after it), as a client is free to do.
var c14Modes = []string{"none", "d1", "d2", "d1-then-d2", "d2-then-d1", "concurrent", "d1-then-d2-batched-first", "d1-then-d2-batched-last", "d2-then-d1-batched-first",
	// ... or with an older, refusable attestation slipped in between inside a batch (an attempt to rewind the record).
	"d1-stale-batch-d2", "d2-stale-batch-d1",
	// ... or with the second duty addressed by the account's public key followed by extra bytes.
	"d1-then-d2-by-long-key", "d2-then-d1-by-long-key",
	// ... or with the FIRST duty arriving inside a batch (the account has earlier history from single requests).
	"d1-batched-then-d2", "d2-batched-then-d1", "d1-batched-then-d2-batched",
	// ... or with the first duty in a batch whose LAST entry is one the rules refuse (a repeat of an old attestation of
	// another account).
	"d1-batched-before-refused-then-d2", "d2-batched-before-refused-then-d1"}

// C14 routes two conflicting duties across the instances of a distributed account in every way and
// counts the valid partial signatures each duty collects.
func C14(cfg Cfg) int {
	run := evid.New("C14", cfg.Tier, cfg.Seed, "exploration")
	run.Rule = "for every (n,t) that key generation accepts on clusters of n = 2..4 (thorough ..6) real instances, each with its own slashing-protection database: one distributed account; four kinds of conflicting duty pairs (double vote, D1 surrounds D2, D2 surrounds D1, double proposal), each in a fresh epoch window; every instance independently receives one of {nothing, D1, D2, D1 then D2, D2 then D1, D1 and D2 concurrently, and the second duty hidden in a two-entry batch before or after an unrelated approvable attestation} - all 9^n assignments for n = 2, a seeded sample beyond; " +
		"the partial signatures returned are verified under the participants' share keys; never may both duties collect t valid partial signatures; when one does, the recovered signature must verify under the composite key; distinct = (n, t, conflict kind, routing assignment class, outcome) cells"
	run.Assume = []string{"a partial signature counts if it verifies under the participant's share public key over the duty's signing root"}
	r := cfg.Rand("c14")
	maxN := cfg.N(4, 6)
	caseNo := uint64(1)
	for n := 2; n <= maxN && run.NumViolations() < 5; n++ {
		ids := idSet("small", n)
		c, err := rig.NewCluster(rig.ClusterOpts{Dir: cfg.Dir(fmt.Sprintf("c14-%d", n)), IDs: ids, NDAccounts: 1})
		if err != nil {
			run.Inconclusive(err.Error())
			return run.Finish()
		}
		for t := 1; t <= n && run.NumViolations() < 5; t++ {
			account := fmt.Sprintf("D/c14-%d-%d", n, t)
			pub, _, err := c.Inst[ids[0]].Stack.Process.OnGenerate(context.Background(), rig.Client1(), account, []byte("pass"), uint32(t), uint32(n))
			if err != nil {
				run.Count("configurations_refused_by_generation", 1)
				run.Distinct(fmt.Sprintf("n=%d t=%d refused by generation", n, t))
				continue
			}
			run.Count("configurations_accepted_by_generation", 1)
			shares := map[uint64][]byte{}
			for _, v := range dkgHolders(c, account) {
				shares[v.ID] = v.SharePub
			}
			if len(shares) != n {
				run.Inconclusive(fmt.Sprintf("generation n=%d t=%d left %d holders", n, t, len(shares)))
				continue
			}
			// Enumerate or sample routing assignments.
			total := 1
			for i := 0; i < n; i++ {
				total *= len(c14Modes)
			}
			limit := total
			if n > 2 {
				limit = cfg.N(250, 3000)
			}
			for _, kind := range c14Kinds {
				klimit := limit
				if strings.HasPrefix(kind, "genesis") || strings.HasPrefix(kind, "slot0") {
					klimit = min(limit, 40)
				}
				for a := 0; a < klimit && run.NumViolations() < 5; a++ {
					assign := a
					if limit < total {
						assign = r.Intn(total)
					}
					modes := make([]int, n)
					x := assign
					for i := range modes {
						modes[i] = x % len(c14Modes)
						x /= len(c14Modes)
					}
					base := 10 * caseNo
					caseNo++
					d1, d2 := c14Pair(kind, base)
					valid1, valid2, sigs1, sigs2 := c14Route(c, ids, account, modes, d1, d2, shares)
					run.Eval(1)
					cls := fmt.Sprintf("n=%d t=%d %s d1>=t:%v d2>=t:%v", n, t, kind, valid1 >= t, valid2 >= t)
					run.Distinct(cls)
					witness := map[string]any{"n": n, "t": t, "kind": kind, "routing": c14Describe(modes), "valid_partials_d1": valid1, "valid_partials_d2": valid2}
					if valid1 >= t && valid2 >= t {
						run.Violate(fmt.Sprintf("both conflicting duties (%s) collected the threshold of %d valid partial signatures (%d and %d) with n=%d", kind, t, valid1, valid2, n), witness)
					}
					// Sanity: a duty that reached the threshold really yields a signature valid under the composite key.
					for di, sg := range []map[uint64][]byte{sigs1, sigs2} {
						if len(sg) >= t {
							sub := make([]uint64, 0, t)
							for _, id := range ids {
								if _, ok := sg[id]; ok && len(sub) < t {
									sub = append(sub, id)
								}
							}
							root := d1.root()
							if di == 1 {
								root = d2.root()
							}
							rec, err := oracle.Recover(sg, sub)
							if err != nil {
								run.Inconclusive("cannot recover: " + err.Error())
							} else if ok, _ := oracle.VerifySig(pub, root[:], rec); !ok {
								run.Violate(fmt.Sprintf("%d valid partial signatures do not recover to a signature valid under the composite key (n=%d t=%d)", t, n, t), witness)
							} else {
								run.Count("threshold_signatures_recovered", 1)
							}
						}
					}
					if caseNo == 3 {
						run.Sample(witness)
					}
				}
			}
			run.Count(fmt.Sprintf("cases_n%d_t%d", n, t), limit*len(c14Kinds))
			if limit == total {
				run.Set(fmt.Sprintf("routing_exhaustive_n%d_t%d", n, t), true)
			}
		}
		c.Close()
	}
	if run.Get("configurations_accepted_by_generation") == 0 || run.Get("threshold_signatures_recovered") == 0 {
		run.Inconclusive("no configuration was accepted or no duty ever reached its threshold")
	}
	return run.Finish()
}

func c14Describe(modes []int) []string {
	out := make([]string, len(modes))
	for i, m := range modes {
		out[i] = fmt.Sprintf("instance%d:%s", i+1, c14Modes[m])
	}
	return out
}

func c14Sign(inst *rig.Instance, account string, d c14Duty) []byte {
	var res core.Result
	var sig []byte
	if d.att != nil {
		res, sig = inst.Stack.Signer.SignBeaconAttestation(context.Background(), rig.Client1(), account, nil, d.att)
	} else {
		res, sig = inst.Stack.Signer.SignBeaconProposal(context.Background(), rig.Client1(), account, nil, d.prop)
	}
	if res != core.ResultSucceeded {
		return nil
	}
	return sig
}

// c14SignByKey addresses the account by (possibly over-long) public key bytes.
func c14SignByKey(inst *rig.Instance, key []byte, d c14Duty) []byte {
	var res core.Result
	var sig []byte
	if d.att != nil {
		res, sig = inst.Stack.Signer.SignBeaconAttestation(context.Background(), rig.Client1(), "", key, d.att)
	} else {
		res, sig = inst.Stack.Signer.SignBeaconProposal(context.Background(), rig.Client1(), "", key, d.prop)
	}
	if res != core.ResultSucceeded {
		return nil
	}
	return sig
}

// c14Stale builds an attestation older than the duty (it must be refused once the duty has been signed).
func c14Stale(d c14Duty) c14Duty {
	if d.att == nil {
		return d
	}
	return c14Att(d.att.Source.Epoch-4, d.att.Source.Epoch-3, 0xdd)
}

var c14Filler struct {
	mu    sync.Mutex
	epoch uint64
}

// c14SignBatched sends the duty in a two-entry batch with a fresh attestation of the instance's own nd account.
func c14SignBatched(inst *rig.Instance, account string, d c14Duty, first bool, refusedFiller ...bool) []byte {
	if d.att == nil {
		return c14Sign(inst, account, d) // proposals have no batch endpoint
	}
	c14Filler.mu.Lock()
	c14Filler.epoch += 2
	e := c14Filler.epoch
	c14Filler.mu.Unlock()
	filler := c14Att(e, e+1, 0xcc).att
	if len(refusedFiller) > 0 && refusedFiller[0] {
		// Far below what the filler account has signed by now.
		filler = c14Att(1, 2, 0xce).att
	}
	names := []string{account, "N/acct0"}
	data := []*rules.SignBeaconAttestationData{d.att, filler}
	pos := 0
	if !first {
		names, data, pos = []string{"N/acct0", account}, []*rules.SignBeaconAttestationData{filler, d.att}, 1
	}
	res, sigs := inst.Stack.Signer.SignBeaconAttestations(context.Background(), rig.Client1(), names, nil, data)
	if pos < len(res) && res[pos] == core.ResultSucceeded && pos < len(sigs) {
		return sigs[pos]
	}
	// A signature for the duty may also have been returned at the other position if results are misaligned.
	for i := range sigs {
		if i != pos && len(sigs[i]) > 0 && i < len(res) && res[i] == core.ResultSucceeded {
			return sigs[i]
		}
	}
	return nil
}

// c14Route delivers the duties as the assignment says and returns the number of valid partial signatures per duty.
func c14Route(c *rig.Cluster, ids []uint64, account string, modes []int, d1, d2 c14Duty, shares map[uint64][]byte) (int, int, map[uint64][]byte, map[uint64][]byte) {
	sigs1, sigs2 := map[uint64][]byte{}, map[uint64][]byte{}
	var mu sync.Mutex
	var wg sync.WaitGroup
	put := func(m map[uint64][]byte, id uint64, sig []byte) {
		if sig != nil {
			mu.Lock()
			m[id] = sig
			mu.Unlock()
		}
	}
	for i, id := range ids {
		inst := c.Inst[id]
		wg.Add(1)
		go func(id uint64, mode string) {
			defer wg.Done()
			switch mode {
			case "d1":
				put(sigs1, id, c14Sign(inst, account, d1))
			case "d2":
				put(sigs2, id, c14Sign(inst, account, d2))
			case "d1-then-d2":
				put(sigs1, id, c14Sign(inst, account, d1))
				put(sigs2, id, c14Sign(inst, account, d2))
			case "d2-then-d1":
				put(sigs2, id, c14Sign(inst, account, d2))
				put(sigs1, id, c14Sign(inst, account, d1))
			case "d1-then-d2-batched-first":
				put(sigs1, id, c14Sign(inst, account, d1))
				put(sigs2, id, c14SignBatched(inst, account, d2, true))
			case "d1-then-d2-batched-last":
				put(sigs1, id, c14Sign(inst, account, d1))
				put(sigs2, id, c14SignBatched(inst, account, d2, false))
			case "d2-then-d1-batched-first":
				put(sigs2, id, c14Sign(inst, account, d2))
				put(sigs1, id, c14SignBatched(inst, account, d1, true))
			case "d1-then-d2-by-long-key":
				put(sigs1, id, c14Sign(inst, account, d1))
				put(sigs2, id, c14SignByKey(inst, append(append([]byte{}, shares[id]...), 0, 7), d2))
			case "d2-then-d1-by-long-key":
				put(sigs2, id, c14SignByKey(inst, shares[id], d2))
				put(sigs1, id, c14SignByKey(inst, append(append([]byte{}, shares[id]...), 1), d1))
			case "d1-batched-then-d2":
				put(sigs1, id, c14SignBatched(inst, account, d1, id%2 == 0))
				put(sigs2, id, c14Sign(inst, account, d2))
			case "d2-batched-then-d1":
				put(sigs2, id, c14SignBatched(inst, account, d2, id%2 == 1))
				put(sigs1, id, c14Sign(inst, account, d1))
			case "d1-batched-then-d2-batched":
				put(sigs1, id, c14SignBatched(inst, account, d1, true))
				put(sigs2, id, c14SignBatched(inst, account, d2, false))
			case "d1-batched-before-refused-then-d2":
				c14SignBatched(inst, account, c14Stale(d1), true) // the filler account gets some history first
				put(sigs1, id, c14SignBatched(inst, account, d1, true, true))
				put(sigs2, id, c14Sign(inst, account, d2))
			case "d2-batched-before-refused-then-d1":
				c14SignBatched(inst, account, c14Stale(d2), true)
				put(sigs2, id, c14SignBatched(inst, account, d2, true, true))
				put(sigs1, id, c14Sign(inst, account, d1))
			case "d1-stale-batch-d2":
				put(sigs1, id, c14Sign(inst, account, d1))
				c14SignBatched(inst, account, c14Stale(d1), id%2 == 0)
				put(sigs2, id, c14Sign(inst, account, d2))
			case "d2-stale-batch-d1":
				put(sigs2, id, c14Sign(inst, account, d2))
				c14SignBatched(inst, account, c14Stale(d2), id%2 == 1)
				put(sigs1, id, c14Sign(inst, account, d1))
			case "concurrent":
				var w2 sync.WaitGroup
				w2.Add(2)
				go func() { defer w2.Done(); put(sigs1, id, c14Sign(inst, account, d1)) }()
				go func() { defer w2.Done(); put(sigs2, id, c14Sign(inst, account, d2)) }()
				w2.Wait()
			}
		}(id, c14Modes[modes[i]])
	}
	wg.Wait()
	count := func(m map[uint64][]byte, root [32]byte) int {
		n := 0
		for id, sig := range m {
			if ok, _ := oracle.VerifySig(shares[id], root[:], sig); ok {
				n++
			} else {
				delete(m, id)
			}
		}
		return n
	}
	return count(sigs1, d1.root()), count(sigs2, d2.root()), sigs1, sigs2
}
