package props

import (
	"context"
	"fmt"
	"math/rand"
	"os"
	"runtime"
	"strings"
	"sync"
	"sync/atomic"
	"time"

	"verif/harness/evid"
	"verif/harness/rig"

	standardprocess "github.com/attestantio/dirk/services/process/standard"
	pb "github.com/wealdtech/eth2-signer-api/pb/v1"
)

const c17Timeout = 1500 * time.Millisecond

var c17Progress atomic.Int64

const (
	sNot = iota
	sActive
	sUnknown
)

// c17Sess is the three-valued model of one (instance, account) session.
type c17Sess struct {
	state   int
	a0, a1  time.Time // interval in which the session was created
	t       uint32    // threshold of the prepare that created it (0 = unknown)
	contrib map[uint64]bool
	created bool // an account was legitimately created on this instance
}

// status classifies the session for a call made in [b0,b1]: active, not active, or unknown (timing grey zone).
func (s *c17Sess) status(b0, b1 time.Time) int {
	if s.state != sActive {
		return s.state
	}
	if b1.Sub(s.a0) <= c17Timeout-5*time.Millisecond {
		return sActive
	}
	if b0.Sub(s.a1) > c17Timeout+5*time.Millisecond {
		s.state = sNot
		s.contrib = nil
		return sNot
	}
	return sUnknown
}

func stName(s int) string { return []string{"not-active", "active", "unknown"}[s] }

type c17World struct {
	run   *evid.Run
	c     *rig.Cluster
	ids   []uint64
	mu    sync.Mutex
	sess  map[string]*c17Sess // "inst/account"
	trace []string
}

func (w *c17World) get(inst uint64, account string) *c17Sess {
	k := fmt.Sprintf("%d/%s", inst, account)
	s := w.sess[k]
	if s == nil {
		s = &c17Sess{}
		w.sess[k] = s
	}
	return s
}

func (w *c17World) log(format string, a ...any) {
	w.trace = append(w.trace, fmt.Sprintf(format, a...))
}

func (w *c17World) violate(what string) {
	w.run.Violate(what, map[string]any{"events": append([]string{}, w.trace...)})
}

// C17 checks the session lifecycle implications with a three-valued model and an interval clock.
func C17(cfg Cfg) int {
	run := evid.New("C17", cfg.Tier, cfg.Seed, "exploration")
	run.Rule = "seeded event sequences (6-20 events) over two account names on 3-instance clusters with generation timeout 1.5 s: prepare (also second prepares with another threshold), execute, commit, abort on chosen instances, fabricated contributions only where the session is certainly not active, repeats and out-of-order messages, and sleeps beyond the timeout; 16 sequences run in parallel; " +
		"a model tracks per (instance, account) whether a session is certainly active, certainly not active or unknown (interval clock over monotonic time; unknown after a failed commit) and which participants' contributions reached it; only the stated implications are asserted: not active => execute/contribute/commit/abort fail and create nothing; active => prepare refused and the session intact; commit success => all contributions seen, and the stored account carries the first prepare's threshold; after commit/abort/expiry => a new prepare succeeds; distinct = (event kind, model state, outcome) classes"
	run.Assume = []string{"expiry is real-time in the code: assertions are made only when the interval clock decides the session's state", "contributions are only exchanged by Execute between listed participants (the statement's cooperating peers)"}
	seqs := cfg.N(240, 5000)
	workers := 16
	// Every message must come back (accepted or refused).  If nothing returns for a minute while sequences are
	// still running, the lifecycle is stuck.
	stopWD := make(chan struct{})
	defer close(stopWD)
	go func() {
		last, lastChange := int64(-1), time.Now()
		for {
			select {
			case <-stopWD:
				return
			case <-time.After(time.Second):
			}
			if cur := c17Progress.Load(); cur != last {
				last, lastChange = cur, time.Now()
				continue
			}
			if time.Since(lastChange) > 60*time.Second {
				buf := make([]byte, 1<<20)
				dump := string(buf[:runtime.Stack(buf, true)])
				if strings.Contains(dump, "services/process/standard.(*Service)") {
					run.Violate("key-generation messages no longer return (accepted or refused) on an instance: calls are blocked inside the process service", dump[:min(len(dump), 6000)])
				} else {
					run.Inconclusive("no key-generation message returned for 60 s")
				}
				os.Exit(run.Finish())
			}
		}
	}()
	var wg sync.WaitGroup
	var seqNo sync.Mutex
	next := 0
	for wk := 0; wk < workers; wk++ {
		wg.Add(1)
		go func(wk int) {
			defer wg.Done()
			ids := []uint64{1, 2, 3}
			c, err := rig.NewCluster(rig.ClusterOpts{Dir: cfg.Dir(fmt.Sprintf("c17-%d", wk)), IDs: ids,
				ProcessOp: []standardprocess.Parameter{standardprocess.WithGenerationTimeout(c17Timeout)}})
			if err != nil {
				run.Inconclusive(err.Error())
				return
			}
			defer c.Close()
			for {
				seqNo.Lock()
				k := next
				next++
				seqNo.Unlock()
				if k >= seqs || run.NumViolations() > 5 {
					return
				}
				c17Sequence(run, cfg, c, ids, k)
			}
		}(wk)
	}
	wg.Wait()
	c17InFlight(run, cfg)
	c17Sliding(run, cfg)
	c17Reprepared(run, cfg)
	for _, need := range []string{"asserted:prepare/active", "asserted:prepare/not-active", "asserted:commit/not-active", "commit_succeeded", "asserted:execute/not-active", "asserted:abort/active", "expired_sessions_observed"} {
		if run.Get(need) == 0 {
			run.Inconclusive("never observed: " + need)
		}
	}
	return run.Finish()
}

func c17Sequence(run *evid.Run, cfg Cfg, c *rig.Cluster, ids []uint64, k int) {
	r := rand.New(rand.NewSource(cfg.Seed*100003 + int64(k)))
	w := &c17World{run: run, c: c, ids: ids, sess: map[string]*c17Sess{}}
	accounts := []string{fmt.Sprintf("D/s%d-a", k), fmt.Sprintf("D/s%d-b", k)}
	peer := c.Endpoint(ids[0]).Name
	// Contributions are observed on the routing sender.
	c17Observe(c, w)
	// Every fourth prepare and abort comes from a caller that has already gone away (its request context is cancelled
	// when the handler runs): the lifecycle rules are the same for it.
	abandoned := func(base context.Context) (context.Context, string) {
		if r.Intn(4) != 0 {
			return base, ""
		}
		cctx, cancel := context.WithCancel(base)
		cancel()
		run.Count("requests_with_cancelled_context", 1)
		return cctx, " (cancelled context)"
	}
	prepare := func(inst uint64, acct string, t uint32) {
		req := &pb.PrepareRequest{Account: acct, Passphrase: []byte("pass"), Threshold: t}
		for _, p := range ids {
			e := c.Endpoint(p)
			req.Participants = append(req.Participants, &pb.Endpoint{Id: e.ID, Name: e.Name, Port: e.Port})
		}
		b0 := time.Now()
		pctx, how := abandoned(rig.PeerCtx(peer))
		_, err := c.Inst[inst].Stack.ReceiverH.Prepare(pctx, req)
		b1 := time.Now()
		c17Progress.Add(1)
		w.mu.Lock()
		defer w.mu.Unlock()
		s := w.get(inst, acct)
		st := s.status(b0, b1)
		w.log("prepare%s inst=%d %s t=%d -> err=%v (model: %s)", how, inst, acct, t, err != nil, stName(st))
		run.Eval(1)
		run.Distinct(fmt.Sprintf("prepare model=%s ok=%v", stName(st), err == nil))
		switch st {
		case sActive:
			run.Count("asserted:prepare/active", 1)
			if err == nil {
				w.violate(fmt.Sprintf("prepare for %s was accepted by instance %d while a generation for it is active", acct, inst))
				s.state, s.a0, s.a1, s.t, s.contrib = sActive, b0, b1, t, map[uint64]bool{inst: true}
			}
		case sNot:
			run.Count("asserted:prepare/not-active", 1)
			if err != nil {
				w.violate(fmt.Sprintf("prepare for %s was refused by instance %d although no generation for it is active", acct, inst))
				s.state = sUnknown
			} else {
				s.state, s.a0, s.a1, s.t, s.contrib = sActive, b0, b1, t, map[uint64]bool{inst: true}
			}
		default:
			run.Count("skipped_unknown", 1)
			if err == nil {
				s.state, s.a0, s.a1, s.t, s.contrib = sActive, b0, b1, t, map[uint64]bool{inst: true}
			} else {
				s.state = sUnknown
			}
		}
	}
	simple := func(kind string, inst uint64, acct string) {
		b0 := time.Now()
		var err error
		var pub []byte
		how := ""
		switch kind {
		case "execute":
			_, err = c.Inst[inst].Stack.ReceiverH.Execute(rig.PeerCtx(peer), &pb.ExecuteRequest{Account: acct})
		case "commit":
			var res *pb.CommitResponse
			res, err = c.Inst[inst].Stack.ReceiverH.Commit(rig.PeerCtx(peer), &pb.CommitRequest{Account: acct, ConfirmationData: Root32(5)})
			if err == nil {
				pub = res.GetPublicKey()
			}
		case "abort":
			var actx context.Context
			actx, how = abandoned(rig.PeerCtx(peer))
			_, err = c.Inst[inst].Stack.ReceiverH.Abort(actx, &pb.AbortRequest{Account: acct})
		case "contribute":
			sec, vv := fakeContribution(2, inst)
			_, err = c.Inst[inst].Stack.ReceiverH.Contribute(rig.PeerCtx(c.Endpoint(ids[(int(inst))%3]).Name), &pb.ContributeRequest{Account: acct, Secret: sec, VerificationVector: vv})
		}
		b1 := time.Now()
		c17Progress.Add(1)
		w.mu.Lock()
		defer w.mu.Unlock()
		s := w.get(inst, acct)
		st := s.status(b0, b1)
		w.log("%s%s inst=%d %s -> err=%v (model: %s)", kind, how, inst, acct, err != nil, stName(st))
		run.Eval(1)
		run.Distinct(fmt.Sprintf("%s model=%s ok=%v", kind, stName(st), err == nil))
		if st == sUnknown {
			run.Count("skipped_unknown", 1)
		}
		if st == sNot {
			run.Count("asserted:"+kind+"/not-active", 1)
			if err == nil {
				w.violate(fmt.Sprintf("%s for %s was accepted by instance %d although no generation for it is active", kind, acct, inst))
			}
			if !s.created {
				if _, verr := dkgView(c.Inst[inst], acct); verr == nil {
					w.violate(fmt.Sprintf("instance %d holds account %s although no generation for it completed there", inst, acct))
				}
			}
		}
		switch kind {
		case "commit":
			if err == nil {
				run.Count("commit_succeeded", 1)
				if st == sActive || st == sUnknown {
					if st == sActive && len(s.contrib) != len(ids) {
						w.violate(fmt.Sprintf("commit for %s succeeded on instance %d although only participants %v had contributed", acct, inst, keysOf(s.contrib)))
					}
					if st == sActive && s.t != 0 {
						if v, verr := dkgView(c.Inst[inst], acct); verr == nil && v.Threshold != s.t {
							w.violate(fmt.Sprintf("account %s committed on instance %d carries threshold %d, the active generation was prepared with %d", acct, inst, v.Threshold, s.t))
						}
					}
				}
				_ = pub
				s.state, s.contrib, s.created = sNot, nil, true
			} else if st != sNot {
				s.state = sUnknown // a failed commit leaves the session's fate open in the model
			}
		case "abort":
			if st == sActive {
				run.Count("asserted:abort/active", 1)
				if err != nil {
					w.violate(fmt.Sprintf("abort for %s failed on instance %d although a generation is active", acct, inst))
				}
			}
			if err == nil {
				s.state, s.contrib = sNot, nil
			}
		}
	}
	if r.Intn(5) == 0 {
		// A complete generation first (the way a coordinator drives it), so that the events that follow meet
		// the "after a successful commit" part of the lifecycle.
		t := uint32(2 + r.Intn(2))
		for _, id := range ids {
			prepare(id, accounts[0], t)
		}
		for _, id := range ids {
			simple("execute", id, accounts[0])
		}
		for _, id := range ids {
			simple("commit", id, accounts[0])
		}
	}
	sleeps := 0
	steps := 6 + r.Intn(15)
	for i := 0; i < steps && run.NumViolations() <= 5; i++ {
		acct := accounts[r.Intn(2)]
		inst := ids[r.Intn(3)]
		switch p := r.Intn(100); {
		case p < 22:
			prepare(inst, acct, uint32(2+r.Intn(2)))
		case p < 34:
			// Prepare everywhere with one threshold (the way a coordinator does).
			t := uint32(2 + r.Intn(2))
			for _, id := range ids {
				prepare(id, acct, t)
			}
		case p < 50:
			simple("execute", inst, acct)
		case p < 60:
			for _, id := range ids {
				simple("execute", id, acct)
			}
		case p < 74:
			simple("commit", inst, acct)
		case p < 80:
			for _, id := range ids {
				simple("commit", id, acct)
			}
		case p < 88:
			simple("abort", inst, acct)
		case p < 94:
			w.mu.Lock()
			certainlyNot := w.get(inst, acct).status(time.Now(), time.Now()) == sNot
			w.mu.Unlock()
			if certainlyNot {
				simple("contribute", inst, acct)
			}
		default:
			if sleeps < 2 {
				sleeps++
				w.mu.Lock()
				w.log("sleep %v", c17Timeout+300*time.Millisecond)
				active := 0
				for _, s := range w.sess {
					if s.state == sActive {
						active++
					}
				}
				w.mu.Unlock()
				time.Sleep(c17Timeout + 300*time.Millisecond)
				run.Count("expired_sessions_observed", active)
			}
		}
	}
	if k == 0 {
		run.Sample(map[string]any{"sequence": w.trace})
	}
}

func keysOf(m map[uint64]bool) []uint64 {
	var out []uint64
	for k := range m {
		out = append(out, k)
	}
	return out
}

// c17Observe records which contributions reached which session.
func c17Observe(c *rig.Cluster, w *c17World) {
	c.Observe = func(m *rig.Msg, _ []byte, _ [][]byte, err error) {
		if err != nil {
			return
		}
		// Called from inside an Execute issued by this sequence's goroutine: the world lock is not held here.
		w.mu.Lock()
		defer w.mu.Unlock()
		if s := w.get(m.To, m.Account); s.contrib != nil {
			s.contrib[m.From] = true
		}
		if s := w.get(m.From, m.Account); s.contrib != nil {
			s.contrib[m.To] = true
		}
	}
}

// c17Reprepared: a generation that ends early (abort) and is prepared again lives for its OWN full timeout: at
// 1.15 timeouts after the first prepare - 0.65 after the second - it is still active (a further prepare is refused,
// an abort is accepted).  Whatever was set up for the first generation must not end the second.
func c17Reprepared(run *evid.Run, cfg Cfg) {
	ids := []uint64{1, 2, 3}
	c, err := rig.NewCluster(rig.ClusterOpts{Dir: cfg.Dir("c17-reprepared"), IDs: ids,
		ProcessOp: []standardprocess.Parameter{standardprocess.WithGenerationTimeout(c17Timeout)}})
	if err != nil {
		run.Inconclusive(err.Error())
		return
	}
	defer c.Close()
	peer := c.Endpoint(ids[0]).Name
	for round, end := range []string{"abort", "abort-on-all", "commit-refused-then-abort"}[:cfg.N(2, 3)] {
		account := fmt.Sprintf("D/reprepared-%d", round)
		g := &manualGen{c: c, ids: ids, account: account, t: 2, as: peer}
		t0 := time.Now()
		if err := g.prepare(ids[0]); err != nil {
			run.Inconclusive("re-prepare scenario: prepare failed: " + err.Error())
			return
		}
		time.Sleep(c17Timeout / 2)
		if end == "commit-refused-then-abort" {
			_, _, _ = g.commit(ids[0], Root32(1))
		}
		if _, err := c.Inst[ids[0]].Stack.ReceiverH.Abort(rig.PeerCtx(peer), &pb.AbortRequest{Account: account}); err != nil {
			run.Count("reprepared_rounds_skipped", 1)
			continue
		}
		t1 := time.Now()
		if err := g.prepare(ids[0]); err != nil {
			run.Violate(fmt.Sprintf("a new prepare for %s right after its abort was refused: %v", account, err), nil)
			continue
		}
		time.Sleep(time.Until(t0.Add(c17Timeout * 115 / 100)))
		secondPrepare := g.prepare(ids[0])
		_, abortErr := c.Inst[ids[0]].Stack.ReceiverH.Abort(rig.PeerCtx(peer), &pb.AbortRequest{Account: account})
		if since := time.Since(t1); since > c17Timeout*90/100 {
			run.Count("reprepared_rounds_skipped", 1)
			continue // too slow: the second generation may have expired on its own
		}
		run.Eval(1)
		run.Count("reprepared_rounds", 1)
		run.Distinct(fmt.Sprintf("re-prepared after %s, 0.65 timeouts later: further-prepare-refused=%v abort-accepted=%v", end, secondPrepare != nil, abortErr == nil))
		if secondPrepare == nil {
			run.Violate(fmt.Sprintf("a further prepare for %s was accepted 0.65 timeouts after its (second) prepare: the active generation had vanished (1.15 timeouts after the FIRST prepare, which had been aborted)", account), map[string]any{"ended_by": end})
		} else if abortErr != nil {
			run.Violate(fmt.Sprintf("abort for %s was refused (%v) 0.65 timeouts after its (second) prepare: the active generation had vanished", account, abortErr), map[string]any{"ended_by": end})
		}
		_, _ = c.Inst[ids[0]].Stack.ReceiverH.Abort(rig.PeerCtx(peer), &pb.AbortRequest{Account: account})
	}
}

// c17InFlight: an execute is under way on an instance (its contribution to a peer is delayed in transit) when an
// abort and a new prepare for the same name arrive at that instance.  However the three interleave, the new
// generation starts with no contributions: a commit on it right afterwards must be refused, and nothing may be
// stored.  (Replies that belong to the aborted generation must not count for the new one.)
func c17InFlight(run *evid.Run, cfg Cfg) {
	ids := []uint64{1, 2, 3}
	c, err := rig.NewCluster(rig.ClusterOpts{Dir: cfg.Dir("c17-inflight"), IDs: ids})
	if err != nil {
		run.Inconclusive(err.Error())
		return
	}
	defer c.Close()
	peer := c.Endpoint(ids[0]).Name
	rounds := cfg.N(8, 60)
	for round := 0; round < rounds && run.NumViolations() < 5; round++ {
		account := fmt.Sprintf("D/inflight-%d", round)
		g := &manualGen{c: c, ids: ids, account: account, t: 2, as: peer}
		for _, id := range ids {
			if err := g.prepare(id); err != nil {
				run.Inconclusive("in-flight scenario: prepare failed: " + err.Error())
				return
			}
		}
		// The first contribution instance 1 sends during its execute is held up in transit.
		delay := time.Duration(150+50*(round%4)) * time.Millisecond
		var held sync.Once
		c.Hook = func(m *rig.Msg) rig.Action {
			if m.Kind == "contribute" && m.From == ids[0] && m.Account == account {
				act := rig.Action{}
				held.Do(func() { act.Delay = delay })
				return act
			}
			return rig.Action{}
		}
		execDone := make(chan error, 1)
		go func() { execDone <- g.execute(ids[0]) }()
		time.Sleep(40 * time.Millisecond)
		_, abortErr := c.Inst[ids[0]].Stack.ReceiverH.Abort(rig.PeerCtx(peer), &pb.AbortRequest{Account: account})
		prepErr := g.prepare(ids[0])
		execErr := <-execDone
		c.Hook = nil
		_, _, commitErr := g.commit(ids[0], Root32(9))
		run.Eval(1)
		run.Count("inflight_rounds", 1)
		run.Distinct(fmt.Sprintf("execute in flight: abort-ok=%v re-prepare-ok=%v execute-ok=%v commit-ok=%v", abortErr == nil, prepErr == nil, execErr == nil, commitErr == nil))
		if abortErr == nil && prepErr == nil && commitErr == nil {
			// A new generation was accepted after the abort; nobody has executed since.
			run.Violate(fmt.Sprintf("commit for %s succeeded on instance %d for a generation prepared after an abort, to which no participant has contributed since (an execute of the aborted generation was still in flight)", account, ids[0]),
				map[string]any{"account": account, "delay_ms": delay.Milliseconds(), "execute_error": fmt.Sprint(execErr)})
		}
		for _, id := range ids {
			_, _ = c.Inst[id].Stack.ReceiverH.Abort(rig.PeerCtx(peer), &pb.AbortRequest{Account: account})
		}
	}
	if run.Get("inflight_rounds") == 0 {
		run.Inconclusive("in-flight scenario never ran")
	}
}

// c17Sliding: the timeout runs from the prepare.  Messages that arrive while the generation is active (an execute, a
// refused second prepare, a refused commit) must not extend it: 1.1 timeouts after the prepare - and only 0.55
// after such a message - the generation is gone, a commit is refused and a new prepare succeeds.
func c17Sliding(run *evid.Run, cfg Cfg) {
	ids := []uint64{1, 2, 3}
	c, err := rig.NewCluster(rig.ClusterOpts{Dir: cfg.Dir("c17-sliding"), IDs: ids,
		ProcessOp: []standardprocess.Parameter{standardprocess.WithGenerationTimeout(c17Timeout)}})
	if err != nil {
		run.Inconclusive(err.Error())
		return
	}
	defer c.Close()
	peer := c.Endpoint(ids[0]).Name
	for round, touch := range []string{"execute", "second-prepare", "commit", "contribute"}[:cfg.N(3, 4)] {
		account := fmt.Sprintf("D/sliding-%d", round)
		g := &manualGen{c: c, ids: ids, account: account, t: 2, as: peer}
		t0 := time.Now()
		for _, id := range ids {
			if err := g.prepare(id); err != nil {
				run.Inconclusive("sliding scenario: prepare failed: " + err.Error())
				return
			}
		}
		time.Sleep(c17Timeout * 55 / 100)
		switch touch {
		case "execute":
			_ = g.execute(ids[0])
		case "second-prepare":
			_ = g.prepare(ids[0])
		case "commit":
			_, _, _ = g.commit(ids[0], Root32(1))
		case "contribute":
			sec, vv := fakeContribution(2, ids[0])
			_, _ = c.Inst[ids[0]].Stack.ReceiverH.Contribute(rig.PeerCtx(c.Endpoint(ids[1]).Name), &pb.ContributeRequest{Account: account, Secret: sec, VerificationVector: vv})
		}
		time.Sleep(t0.Add(c17Timeout * 110 / 100).Sub(time.Now()))
		if since := time.Since(t0); since > c17Timeout*150/100 {
			run.Count("sliding_rounds_skipped_for_timing", 1)
			continue // the machine was too slow for the scenario to mean anything
		}
		_, _, commitErr := g.commit(ids[0], Root32(2))
		prepErr := g.prepare(ids[0])
		run.Eval(1)
		run.Count("sliding_rounds", 1)
		run.Distinct(fmt.Sprintf("1.1 timeouts after prepare, 0.55 after %s: commit-refused=%v new-prepare-ok=%v", touch, commitErr != nil, prepErr == nil))
		if commitErr == nil {
			run.Violate(fmt.Sprintf("commit for %s was accepted 1.1 timeouts after its prepare (a %s message had arrived in between): the timeout did not end the generation", account, touch), map[string]any{"touch": touch})
		}
		if prepErr != nil {
			run.Violate(fmt.Sprintf("a new prepare for %s was refused (%v) 1.1 timeouts after the first one (a %s message had arrived in between): the generation outlived its timeout", account, prepErr, touch), map[string]any{"touch": touch})
		}
		for _, id := range ids {
			_, _ = c.Inst[id].Stack.ReceiverH.Abort(rig.PeerCtx(peer), &pb.AbortRequest{Account: account})
		}
	}
}
