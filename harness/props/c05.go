package props

import (
	"bytes"
	"fmt"
	"math/rand"
	"runtime"
	"sync"

	"verif/harness/evid"
	"verif/harness/oracle"
	"verif/harness/rig"

	"github.com/attestantio/dirk/core"
	"github.com/attestantio/dirk/rules"
	"github.com/attestantio/dirk/services/checker"
)

type domClass struct {
	name   string
	prefix []byte
}

var domClasses = []domClass{
	{"proposer", []byte{0, 0, 0, 0}}, {"attester", []byte{1, 0, 0, 0}}, {"randao", []byte{2, 0, 0, 0}}, {"deposit", []byte{3, 0, 0, 0}},
	{"exit", []byte{4, 0, 0, 0}}, {"selection", []byte{5, 0, 0, 0}}, {"aggregate", []byte{6, 0, 0, 0}}, {"sync", []byte{7, 0, 0, 0}},
	{"appbuilder", []byte{0, 0, 0, 1}}, {"attester-like-1", []byte{1, 0, 0, 1}}, {"attester-like-2", []byte{1, 1, 0, 0}},
	{"proposer-like", []byte{0, 0, 1, 0}}, {"exit-like", []byte{4, 0, 0, 1}}, {"swapped-attester", []byte{0, 0, 0, 1}}, {"ff", []byte{0xff, 0xff, 0xff, 0xff}},
}

type ipCfg struct {
	name string
	list []string
}

// C05 checks that slashable domain types are only signed by their protected endpoints and that
// voluntary exits need an administrator address.
func C05(cfg Cfg) int {
	run := evid.New("C05", cfg.Tier, cfg.Seed, "exploration")
	run.Rule = "all five signing endpoints (service boundary and handler after a wire round trip) x domain type classes (proposer, attester, exit, others, look-alikes, random; lengths != 32 over the wire) x admin-IP lists (empty, one, many) x source addresses (absent, listed, unlisted, near-miss) x batch position; " +
		"distinct = (endpoint, boundary, domain class, ip list, ip class, outcome) cells"
	run.Assume = []string{"credentials' IP stands in for the address the SourceIP interceptor would supply (the wire slice uses the real interceptor)"}
	r := cfg.Rand("c05")
	ipcfgs := []ipCfg{{"empty", nil}, {"one", []string{"10.0.0.1"}}, {"many", []string{"10.0.0.1", "192.168.1.7", "::1", "fe80::1"}}}
	total := cfg.N(6000, 100000)
	for ci, ic := range ipcfgs {
		env, err := NewEnv(run, cfg, fmt.Sprintf("c05-%d", ci), rig.StackOpts{AdminIPs: ic.list})
		if err != nil {
			run.Inconclusive(err.Error())
			return run.Finish()
		}
		c05Run(run, r, env, ic, total/len(ipcfgs))
		env.Stack.Close()
		if run.NumViolations() > 5 {
			break
		}
	}
	for _, need := range []string{"generic_signed_other_domain", "exit_signed_from_admin_ip", "exit_refused", "slashable_domain_refused_by_generic", "protected_endpoint_refused_foreign_domain", "protected_endpoint_signed_own_domain"} {
		if run.Get(need) == 0 {
			run.Inconclusive("workload never produced outcome " + need)
		}
	}
	c05MixedBatches(run, cfg, r)
	c05Shifted(run, cfg, r)
	c05Wire(run, cfg)
	raceChild(run, cfg, "C05race")
	return run.Finish()
}

func pickIP(r *rand.Rand, ic ipCfg) (string, string, bool) {
	switch r.Intn(5) {
	case 0:
		return "", "absent", false
	case 1:
		if len(ic.list) > 0 {
			ip := ic.list[r.Intn(len(ic.list))]
			return ip, "listed", true
		}
		return "10.0.0.1", "unlisted", false
	case 2:
		return fmt.Sprintf("172.16.%d.%d", r.Intn(255), r.Intn(255)), "unlisted", false
	case 3:
		if len(ic.list) > 0 {
			ip := ic.list[r.Intn(len(ic.list))]
			switch r.Intn(3) {
			case 0:
				return ip + "0", "near-miss", false
			case 1:
				return ip[:len(ip)-1], "near-miss", false
			default:
				return " " + ip, "near-miss", false
			}
		}
		return "10.0.0.10", "unlisted", false
	}
	return "10.0.0.2", "unlisted", false
}

func c05Run(run *evid.Run, r *rand.Rand, env *Env, ic ipCfg, n int) {
	defer runtime.GOMAXPROCS(runtime.GOMAXPROCS(0))
	for k := 0; k < n && run.NumViolations() <= 5; k++ {
		if k%40 == 0 {
			env.FreshKeys(6)
			runtime.GOMAXPROCS(procsMix[(k/40)%len(procsMix)])
		}
		ip, ipClass, listed := pickIP(r, ic)
		env.IP = ip
		env.Creds = &checker.Credentials{RequestID: "r", Client: env.Client, IP: ip}
		dc := domClasses[r.Intn(len(domClasses))]
		if r.Intn(10) == 0 {
			dc = domClass{"random", randBytes(r, 4)}
		}
		dom := randDomain(r, dc.prefix)
		isAtt := bytes.Equal(dom[:4], DomainAttester)
		isProp := bytes.Equal(dom[:4], DomainProposer)
		isExit := bytes.Equal(dom[:4], DomainExit)
		via := Via(r.Intn(2))
		domLen := 32
		if via == ViaHandler && r.Intn(12) == 0 {
			// Other lengths only over the wire round trip, where slice capacities are what a real request has.
			domLen = []int{4, 5, 31, 33, 48}[r.Intn(5)]
			if domLen < 32 {
				dom = dom[:domLen]
			} else {
				dom = append(dom, randBytes(r, domLen-32)...)
			}
		}
		endpoint := r.Intn(5)
		cell := func(ep, outcome string) string {
			return fmt.Sprintf("%s/%s dom=%s len=%d ips=%s ip=%s -> %s", ep, viaName(via), dc.name, domLen, ic.name, ipClass, outcome)
		}
		run.Eval(1)
		switch endpoint {
		case 0, 1: // generic single / multi
			var res []core.Result
			var sigs [][]byte
			var cs []*GenCase
			ep := "generic"
			if endpoint == 0 {
				c := wfGen(r, env, r.Intn(6))
				c.Data.Domain = dom
				cs = []*GenCase{c}
				rr, ss := env.SignGen(via, c)
				res, sigs = []core.Result{rr}, [][]byte{ss}
			} else {
				ep = "multi"
				n := 2 + r.Intn(4)
				perm := r.Perm(6)
				pos := r.Intn(n)
				for i := 0; i < n; i++ {
					c := wfGen(r, env, perm[i])
					if i == pos {
						c.Data.Domain = dom
					}
					cs = append(cs, c)
				}
				if r.Intn(2) == 0 {
					// The same message under several domains in one request (what a validator client does for
					// sync-committee duties): fillers carry the restricted entry's data under their own domain.
					for i := range cs {
						if i != pos && r.Intn(2) == 0 {
							cs[i].Data.Data = append([]byte{}, cs[pos].Data.Data...)
						}
					}
					ep = "multi-shared-data"
				}
				res, sigs = env.SignGens(via, cs)
			}
			for i, c := range cs {
				if i >= len(res) {
					break
				}
				d := c.Data.Domain
				var sig []byte
				if i < len(sigs) {
					sig = sigs[i]
				}
				signed := len(sig) > 0
				if res[i] == core.ResultSucceeded && !signed || res[i] != core.ResultSucceeded && signed {
					run.Violate(fmt.Sprintf("%s: state %s with signature length %d", ep, res[i], len(sig)), cell(ep, res[i].String()))
				}
				a, p, x := bytes.HasPrefix(d, DomainAttester), bytes.HasPrefix(d, DomainProposer), bytes.HasPrefix(d, DomainExit)
				if !bytes.Equal(d, dom) {
					a, p, x = false, false, false // filler entries use generic prefixes
				}
				if signed {
					if a || p {
						run.Violate(fmt.Sprintf("%s endpoint signed under a slashable domain type %x (position %d)", ep, d[:4], i), cell(ep, "signed"))
					}
					if x && !listed {
						run.Violate(fmt.Sprintf("%s endpoint signed a voluntary exit for source address %q with admin list %v", ep, ip, ic.list), cell(ep, "signed"))
					}
					// The signature must not be usable as an attestation/proposal signature of the same root.
					if len(d) == 32 {
						for _, pre := range [][]byte{DomainAttester, DomainProposer} {
							alt := append(append([]byte{}, pre...), d[4:]...)
							root := oracle.SigningRoot(b32(c.Data.Data), alt)
							if ok, _ := oracle.VerifySig(c.Key.Pub, root[:], sig); ok {
								run.Violate(fmt.Sprintf("%s endpoint returned a signature valid under domain type %x", ep, pre), cell(ep, "signed"))
							}
						}
					}
					// Nor as a signature under the restricted domain another entry of the request carried.
					if !bytes.Equal(d, dom) && len(dom) == 32 && (isAtt || isProp || (isExit && !listed)) {
						root := oracle.SigningRoot(b32(c.Data.Data), dom)
						if ok, _ := oracle.VerifySig(c.Key.Pub, root[:], sig); ok {
							run.Violate(fmt.Sprintf("%s endpoint returned at position %d a signature valid under the restricted domain type %x of another entry", ep, i, dom[:4]), cell(ep, "signed"))
						}
					}
					if x {
						run.Count("exit_signed_from_admin_ip", 1)
					} else if bytes.Equal(d, dom) {
						run.Count("generic_signed_other_domain", 1)
					}
				} else if bytes.Equal(d, dom) {
					if a || p {
						run.Count("slashable_domain_refused_by_generic", 1)
					}
					if x {
						run.Count("exit_refused", 1)
					}
				}
				if bytes.Equal(d, dom) {
					run.Distinct(cell(ep, res[i].String()))
				}
			}
		case 2, 3: // attestation single / batch
			before, _ := env.Stack.Export()
			var cs []*AttCase
			var res []core.Result
			var sigs [][]byte
			ep := "att"
			pos := 0
			if endpoint == 2 {
				c := wfAtt(r, env, r.Intn(6))
				c.Data.Domain = dom
				cs = []*AttCase{c}
				rr, ss := env.SignAtt(via, c)
				res, sigs = []core.Result{rr}, [][]byte{ss}
			} else {
				ep = "atts"
				n := 2 + r.Intn(4)
				perm := r.Perm(6)
				pos = r.Intn(n)
				for i := 0; i < n; i++ {
					c := wfAtt(r, env, perm[i])
					if i == pos {
						c.Data.Domain = dom
					}
					cs = append(cs, c)
				}
				res, sigs = env.SignAtts(via, cs)
			}
			if pos < len(res) {
				var sig []byte
				if pos < len(sigs) {
					sig = sigs[pos]
				}
				run.Distinct(cell(ep, res[pos].String()))
				if !isAtt || domLen != 32 {
					if res[pos] == core.ResultSucceeded || len(sig) > 0 {
						if !isAtt {
							run.Violate(fmt.Sprintf("%s endpoint signed under non-attester domain type %x (position %d)", ep, dom[:4], pos), cell(ep, "signed"))
						}
					} else {
						run.Count("protected_endpoint_refused_foreign_domain", 1)
						if !isAtt {
							// The refused entry must not have changed the stored state of its key.
							after, _ := env.Stack.Export()
							k := cs[pos].Key.Pub48()
							if !sameSP(before[k], after[k]) {
								run.Violate(fmt.Sprintf("%s endpoint refused domain type %x but changed the stored state of the key: %+v -> %+v", ep, dom[:4], before[k], after[k]), cell(ep, "state-changed"))
							}
						}
					}
				} else if res[pos] == core.ResultSucceeded {
					run.Count("protected_endpoint_signed_own_domain", 1)
				}
			}
		default: // proposal
			before, _ := env.Stack.Export()
			c := wfProp(r, env, r.Intn(6))
			c.Data.Domain = dom
			res, sig := env.SignProp(via, c)
			run.Distinct(cell("prop", res.String()))
			if !isProp {
				if res == core.ResultSucceeded || len(sig) > 0 {
					run.Violate(fmt.Sprintf("proposal endpoint signed under non-proposer domain type %x", dom[:4]), cell("prop", "signed"))
				} else {
					run.Count("protected_endpoint_refused_foreign_domain", 1)
					after, _ := env.Stack.Export()
					k := c.Key.Pub48()
					if !sameSP(before[k], after[k]) {
						run.Violate(fmt.Sprintf("proposal endpoint refused domain type %x but changed the stored state: %+v -> %+v", dom[:4], before[k], after[k]), cell("prop", "state-changed"))
					}
				}
			} else if res == core.ResultSucceeded {
				run.Count("protected_endpoint_signed_own_domain", 1)
			}
		}
		_ = isExit
		if k == 3 {
			run.Sample(map[string]any{"endpoint": endpoint, "via": viaName(via), "domain_class": dc.name, "domain": fmt.Sprintf("%x", dom), "admin_ips": ic.list, "source_ip": ip})
		}
	}
}

// sameSP compares two exported records; an absent record and a record holding "nothing signed"
// (-1 everywhere, which the batch path writes for a refused entry of a fresh key) are the same state.
func sameSP(a, b *rules.SlashingProtection) bool {
	none := &rules.SlashingProtection{HighestProposedSlot: -1, HighestAttestedSourceEpoch: -1, HighestAttestedTargetEpoch: -1}
	if a == nil {
		a = none
	}
	if b == nil {
		b = none
	}
	return a.HighestProposedSlot == b.HighestProposedSlot && a.HighestAttestedSourceEpoch == b.HighestAttestedSourceEpoch && a.HighestAttestedTargetEpoch == b.HighestAttestedTargetEpoch
}

// c05Wire is the wire slice: the real daemon with server.rules.admin-ips set, the client binding different
// loopback source addresses so that the real SourceIP interceptor supplies the address.
func c05Wire(run *evid.Run, cfg Cfg) {
	// Two administrator lists: one that does not contain the address the daemon itself listens on (127.0.0.1) and one
	// that does, so that a daemon comparing the wrong end of the connection is seen either way.
	c05WireCfg(run, cfg, "c05-wire", []string{"127.0.0.2", "127.0.0.5"})
	c05WireCfg(run, cfg, "c05-wire-own", []string{"127.0.0.1", "127.0.0.5"})
}

func c05WireCfg(run *evid.Run, cfg Cfg, name string, admins []string) {
	r := cfg.Rand(name)
	w, err := NewWireRig(cfg, name, 12, admins)
	if err != nil {
		run.Inconclusive("cannot start daemon for the wire slice: " + err.Error())
		return
	}
	defer w.Close()
	env := NewWireEnv(run, w)
	if !env.WireKeys(12) {
		run.Inconclusive("no wire accounts")
		return
	}
	epoch := uint64(10)
	for _, src := range []string{"127.0.0.1", "127.0.0.2", "127.0.0.3", "127.0.0.5", "127.0.0.25"} {
		if err := w.Dial(src); err != nil {
			run.Inconclusive("cannot dial from " + src + ": " + err.Error())
			return
		}
		listed := src == admins[0] || src == admins[1]
		for k := 0; k < cfg.N(25, 250); k++ {
			dc := domClasses[r.Intn(len(domClasses))]
			if r.Intn(3) == 0 {
				dc = domClasses[4] // voluntary exit: the class whose verdict depends on the source address
			}
			dom := randDomain(r, dc.prefix)
			isAtt, isProp, isExit := bytes.Equal(dom[:4], DomainAttester), bytes.Equal(dom[:4], DomainProposer), bytes.Equal(dom[:4], DomainExit)
			ki := r.Intn(12)
			run.Eval(1)
			cell := func(ep, out string) string {
				return fmt.Sprintf("wire %s dom=%s admins=%v src-listed=%v -> %s", ep, dc.name, admins, listed, out)
			}
			switch r.Intn(4) {
			case 0:
				c := wfGen(r, env, ki)
				c.Data.Domain = dom
				res, sig := env.SignGen(ViaWire, c)
				run.Distinct(cell("generic", res.String()))
				if len(sig) > 0 && (isAtt || isProp) {
					run.Violate(fmt.Sprintf("wire: generic endpoint signed under slashable domain type %x", dom[:4]), cell("generic", "signed"))
				}
				if len(sig) > 0 && isExit && !listed {
					run.Violate(fmt.Sprintf("wire: voluntary exit signed for a request from %s, admin list is %v", src, admins), cell("generic", "signed"))
				}
				if len(sig) > 0 && isExit && listed {
					run.Count("wire_exit_signed_from_admin_ip", 1)
				}
				if len(sig) == 0 && isExit && !listed {
					run.Count("wire_exit_refused", 1)
				}
			case 1:
				cs := []*GenCase{wfGen(r, env, ki), wfGen(r, env, (ki+1)%12)}
				cs[1].Data.Domain = dom
				res, sigs := env.SignGens(ViaWire, cs)
				if len(res) == 2 {
					run.Distinct(cell("multi", res[1].String()))
					if len(sigs) == 2 && len(sigs[1]) > 0 && (isAtt || isProp || (isExit && !listed)) {
						run.Violate(fmt.Sprintf("wire: multisign signed position 1 under domain type %x from %s", dom[:4], src), cell("multi", "signed"))
					}
				}
			case 2:
				epoch += 2
				c := wfAtt(r, env, ki)
				c.Data.Domain = dom
				c.Data.Source.Epoch, c.Data.Target.Epoch = epoch, epoch+1
				res, sig := env.SignAtt(ViaWire, c)
				run.Distinct(cell("att", res.String()))
				if !isAtt && (res == core.ResultSucceeded || len(sig) > 0) {
					run.Violate(fmt.Sprintf("wire: attestation endpoint signed under domain type %x", dom[:4]), cell("att", "signed"))
				}
				if isAtt && res == core.ResultSucceeded {
					run.Count("wire_protected_endpoint_signed_own_domain", 1)
				}
			default:
				epoch += 2
				c := wfProp(r, env, ki)
				c.Data.Domain = dom
				c.Data.Slot = epoch
				res, sig := env.SignProp(ViaWire, c)
				run.Distinct(cell("prop", res.String()))
				if !isProp && (res == core.ResultSucceeded || len(sig) > 0) {
					run.Violate(fmt.Sprintf("wire: proposal endpoint signed under domain type %x", dom[:4]), cell("prop", "signed"))
				}
				if isProp && res == core.ResultSucceeded {
					run.Count("wire_protected_endpoint_signed_own_domain", 1)
				}
			}
		}
	}
	// A positive control so that "never signed an exit" cannot be vacuous.
	for try := 0; try < 20 && run.Get("wire_exit_signed_from_admin_ip") == 0; try++ {
		_ = w.Dial(admins[1])
		c := wfGen(r, env, try%12)
		c.Data.Domain = randDomain(r, DomainExit)
		if _, sig := env.SignGen(ViaWire, c); len(sig) > 0 {
			run.Count("wire_exit_signed_from_admin_ip", 1)
		}
	}
	if run.Get("wire_exit_signed_from_admin_ip") == 0 || run.Get("wire_exit_refused") == 0 {
		run.Inconclusive("wire slice never saw an exit signed from an administrator address and one refused from elsewhere")
	}
}

// c05MixedBatches: large multisign batches in which harmless and restricted domains alternate, spread over many
// workers: the verdict of one entry must never end up at another.  No restricted position may come back signed.
func c05MixedBatches(run *evid.Run, cfg Cfg, r *rand.Rand) {
	env, err := NewEnv(run, cfg, "c05-mixed", rig.StackOpts{AdminIPs: []string{"10.9.9.9"}})
	if err != nil {
		run.Inconclusive(err.Error())
		return
	}
	defer env.Stack.Close()
	defer runtime.GOMAXPROCS(runtime.GOMAXPROCS(0))
	env.IP = "10.0.0.1" // not an administrator
	env.Creds = &checker.Credentials{RequestID: "r", Client: env.Client, IP: env.IP}
	const n = 64
	env.FreshKeys(n)
	restricted := [][]byte{DomainAttester, DomainProposer, DomainExit}
	rounds := cfg.N(150, 3000)
	for round := 0; round < rounds && run.NumViolations() < 5; round++ {
		runtime.GOMAXPROCS([]int{4, 8, 16, 3}[round%4])
		cs := make([]*GenCase, n)
		isRestricted := make([]bool, n)
		for i := range cs {
			cs[i] = wfGen(r, env, i)
			if (i+round)%2 == 0 {
				cs[i].Data.Domain = randDomain(r, restricted[(i/2+round)%3])
				isRestricted[i] = true
			}
		}
		via := Via(round % 2)
		res, sigs := env.SignGens(via, cs)
		run.Eval(n)
		run.Count("mixed_batch_entries", n)
		signedHarmless := 0
		for i := range cs {
			signed := i < len(sigs) && len(sigs[i]) > 0
			if isRestricted[i] && (signed || (i < len(res) && res[i] == core.ResultSucceeded)) {
				run.Violate(fmt.Sprintf("multisign batch of %d mixed entries (GOMAXPROCS %d, %s): position %d carries domain type %x from a non-administrator address and came back signed", n, runtime.GOMAXPROCS(0), viaName(via), i, cs[i].Data.Domain[:4]),
					map[string]any{"position": i, "domain_type": fmt.Sprintf("%x", cs[i].Data.Domain[:4])})
			}
			if !isRestricted[i] && signed {
				signedHarmless++
			}
		}
		if round == 0 {
			run.Distinct(fmt.Sprintf("mixed multisign batches: harmless entries signed=%v", signedHarmless > 0))
		}
		run.Count("mixed_batch_harmless_signed", signedHarmless)
	}
	if run.Get("mixed_batch_harmless_signed") == 0 {
		run.Inconclusive("mixed batches: no harmless entry was ever signed")
	}
}

// c05Shifted: generic requests whose data and domain have other lengths than 32 bytes each, built so that their
// concatenation reads as (root, restricted domain) while the four bytes the rule inspects - the start of the domain
// field as submitted - are a harmless type.  Whatever comes back must not be a signature of that root under the
// restricted domain.
func c05Shifted(run *evid.Run, cfg Cfg, r *rand.Rand) {
	env, err := NewEnv(run, cfg, "c05-shifted", rig.StackOpts{})
	if err != nil {
		run.Inconclusive(err.Error())
		return
	}
	defer env.Stack.Close()
	env.FreshKeys(4)
	harmless := []byte{9, 0, 0, 0}
	splits := []int{0, 4, 28, 31, 33, 36, 48, 60, 64, 96}
	for k := 0; k < cfg.N(240, 4000) && run.NumViolations() < 5; k++ {
		restricted := [][]byte{DomainAttester, DomainProposer, DomainExit}[k%3]
		c := append(randBytes(r, 32), randDomain(r, restricted)...)
		split := splits[(k/3)%len(splits)]
		var data, domain []byte
		switch {
		case split == 96:
			// 64 bytes of data that already hold (root, restricted domain), plus an ordinary harmless domain.
			data, domain = append([]byte{}, c...), randDomain(r, harmless)
		case split == 64:
			data, domain = append([]byte{}, c...), nil
		default:
			if split != 32 && split+4 <= 64 {
				copy(c[split:split+4], harmless) // what the rule will look at
				if split > 28 && split < 32 {
					continue // would overwrite the restricted type itself
				}
			}
			data, domain = append([]byte{}, c[:split]...), append([]byte{}, c[split:]...)
		}
		if bytes.Equal(c[32:36], restricted) == false {
			continue
		}
		ki := k % 4
		g := &GenCase{Key: env.Keys[ki], Name: env.Names[ki], Addr: RandAddr(r), Data: &rules.SignData{Domain: domain, Data: data}}
		via := Via(k % 2)
		var res []core.Result
		var sigs [][]byte
		pos := 0
		if k%4 < 2 {
			rr, ss := env.SignGen(via, g)
			res, sigs = []core.Result{rr}, [][]byte{ss}
		} else {
			other := wfGen(r, env, (ki+1)%4)
			cs := []*GenCase{other, g}
			pos = 1
			res, sigs = env.SignGens(via, cs)
		}
		run.Eval(1)
		run.Count("shifted_length_requests", 1)
		outcome := "none"
		if pos < len(res) {
			outcome = res[pos].String()
		}
		run.Distinct(fmt.Sprintf("shifted lengths data=%d domain=%d restricted=%x %s -> %s", len(data), len(domain), restricted, viaName(via), outcome))
		if pos < len(sigs) && len(sigs[pos]) > 0 {
			root := oracle.SigningRoot(b32(c[:32]), c[32:64])
			if ok, _ := oracle.VerifySig(env.Keys[ki].Pub, root[:], sigs[pos]); ok {
				run.Violate(fmt.Sprintf("generic endpoint, given %d bytes of data and %d bytes of domain, returned a signature that is valid for the first 32 bytes under domain type %x", len(data), len(domain), restricted),
					map[string]any{"data_len": len(data), "domain_len": len(domain), "restricted_type": fmt.Sprintf("%x", restricted)})
			}
		}
	}
}

func init() { Children["C05race"] = c05RaceChild }

// c05RaceChild runs the three signing endpoints at the same moment, under the race detector: generic requests
// (caller-chosen data, unrestricted domains) next to attestations and proposals for other keys.  Whatever else is
// in flight, a signature returned by the generic endpoint is over the request's own (data, domain) - never over
// the caller's data with the attester or proposer domain of a neighbouring request.
func c05RaceChild(cfg Cfg) int {
	run := evid.New("C05race", cfg.Tier, cfg.Seed, "exploration")
	r := cfg.Rand("c05race")
	env, err := NewEnv(run, cfg, "c05race", rig.StackOpts{})
	if err != nil {
		fmt.Println("cannot build env:", err)
		return 3
	}
	defer env.Stack.Close()
	rounds := cfg.N(60, 600)
	signed, own := 0, 0
	for round := 0; round < rounds; round++ {
		env.FreshKeys(16)
		gs := make([]*GenCase, 8)
		for i := range gs {
			gs[i] = wfGen(r, env, i)
		}
		as := make([]*AttCase, 4)
		for i := range as {
			as[i] = wfAtt(r, env, 8+i)
		}
		ps := make([]*PropCase, 4)
		for i := range ps {
			ps[i] = wfProp(r, env, 12+i)
		}
		sigs := make([][]byte, len(gs))
		var wg sync.WaitGroup
		start := make(chan struct{})
		via := Via(round % 2)
		for i := range gs {
			wg.Add(1)
			go func(i int) {
				defer wg.Done()
				<-start
				if res, sig := env.SignGen(via, gs[i]); res == core.ResultSucceeded {
					sigs[i] = sig
				}
			}(i)
		}
		for i := range as {
			wg.Add(2)
			go func(i int) { defer wg.Done(); <-start; env.SignAtt(via, as[i]) }(i)
			go func(i int) { defer wg.Done(); <-start; env.SignProp(via, ps[i]) }(i)
		}
		close(start)
		wg.Wait()
		for i, sig := range sigs {
			if len(sig) == 0 {
				continue
			}
			signed++
			root := gs[i].SigningRoot()
			if ok, _ := oracle.VerifySig(gs[i].Key.Pub, root[:], sig); ok {
				own++
				continue
			}
			var restricted [][]byte
			for _, a := range as {
				restricted = append(restricted, a.Data.Domain)
			}
			for _, p := range ps {
				restricted = append(restricted, p.Data.Domain)
			}
			for _, dom := range restricted {
				x := oracle.SigningRoot([32]byte(b32(gs[i].Data.Data)), dom)
				if ok, _ := oracle.VerifySig(gs[i].Key.Pub, x[:], sig); ok {
					fmt.Printf("CHILD-VIOLATION the generic endpoint returned a signature over the caller's data under the restricted domain %x of a request in flight at the same time (round %d)\n", dom, round)
				}
			}
		}
	}
	fmt.Printf("RACE-CHILD operations %d\n", rounds*16)
	fmt.Printf("RACE-CHILD generic_signatures %d\n", signed)
	fmt.Printf("RACE-CHILD generic_signatures_over_own_root %d\n", own)
	return 0
}
