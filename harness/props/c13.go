package props

import (
	"context"
	"fmt"
	"os"
	"path/filepath"
	"strings"
	"sync"
	"time"

	"verif/harness/evid"
	"verif/harness/oracle"
	"verif/harness/rig"

	"github.com/herumi/bls-eth-go-binary/bls"
	pb "github.com/wealdtech/eth2-signer-api/pb/v1"
	e2wallet "github.com/wealdtech/go-eth2-wallet"
	filesystem "github.com/wealdtech/go-eth2-wallet-store-filesystem"
	e2wtypes "github.com/wealdtech/go-eth2-wallet-types/v2"
	"google.golang.org/grpc/codes"
	"google.golang.org/grpc/status"
)

// fakeContribution builds a genuine polynomial of the given number of coefficients and the share for id.
func fakeContribution(coeffs int, id uint64) ([]byte, [][]byte) {
	sks := make([]bls.SecretKey, coeffs)
	vvec := make([][]byte, coeffs)
	for i := range sks {
		sks[i].SetByCSPRNG()
		vvec[i] = sks[i].GetPublicKey().Serialize()
	}
	bid, _ := oracle.BLSID(id)
	var share bls.SecretKey
	if err := share.Set(sks, bid); err != nil {
		panic(err)
	}
	return share.Serialize(), vvec
}

type c13Fault struct {
	Name   string
	Kinds  []string // message kinds it applies to
	Strict bool     // the statement names this fault: the generation must fail and leave no account
}

var c13Faults = []c13Fault{
	{"lost", []string{"prepare", "execute", "contribute"}, true},
	{"error-reply", []string{"prepare", "execute", "contribute"}, true},
	{"duplicate", []string{"prepare"}, true},
	// A duplicate execute or contribute delivery carrying the same valid data is not a failure the statement
	// names (a second execute to the participant with the highest identifier has nothing left to send): it is
	// judged only by "success => consistent result".
	{"duplicate", []string{"execute", "contribute"}, false},
	{"share-random", []string{"contribute", "contribute-reply"}, true},
	{"share-for-other-id", []string{"contribute", "contribute-reply"}, true},
	{"commitment-altered", []string{"contribute", "contribute-reply"}, true},
	{"vector-too-short", []string{"contribute", "contribute-reply"}, true},
	{"vector-too-long", []string{"contribute", "contribute-reply"}, true},
	{"vector-empty", []string{"contribute", "contribute-reply"}, true},
	{"vector-entry-truncated", []string{"contribute", "contribute-reply"}, true},
	{"share-empty", []string{"contribute", "contribute-reply"}, true},
}

func init() { Children["C13child"] = c13Child }

// c13Child runs the fault matrix for the (n,t) configurations given as arguments "n,t".
func c13Child(cfg Cfg) int {
	for _, a := range cfg.Args {
		var n, t int
		if _, err := fmt.Sscanf(a, "%d,%d", &n, &t); err != nil {
			fmt.Println("bad config", a)
			return 3
		}
		if !c13Config(cfg, n, t) {
			return 4
		}
	}
	return 0
}

func c13Config(cfg Cfg, n, t int) bool {
	ids := idSet("small", n)
	if (n+t)%2 == 1 {
		ids = idSet("sparse", n)
	}
	c, err := rig.NewCluster(rig.ClusterOpts{Dir: filepath.Join(cfg.Work, fmt.Sprintf("c13-%d-%d", n, t)), IDs: ids})
	if err != nil {
		fmt.Println("CHILD-INCONCLUSIVE cannot build cluster:", err)
		return false
	}
	defer c.Close()
	// Dry run: count messages per kind.
	var mu sync.Mutex
	counts := map[string]int{}
	c.Hook = func(m *rig.Msg) rig.Action {
		mu.Lock()
		counts[m.Kind]++
		mu.Unlock()
		return rig.Action{}
	}
	if _, _, err := c.Inst[ids[0]].Stack.Process.OnGenerate(context.Background(), rig.Client1(), fmt.Sprintf("D/dry-%d-%d", n, t), []byte("pass"), uint32(t), uint32(n)); err != nil {
		fmt.Printf("CHILD-INCONCLUSIVE clean generation n=%d t=%d failed: %v\n", n, t, err)
		return false
	}
	fmt.Printf("STAT messages_per_generation_%d_%d %d\n", n, t, counts["prepare"]+counts["execute"]+counts["contribute"]+counts["commit"])
	seq := 0
	for _, f := range c13Faults {
		for _, kind := range f.Kinds {
			base := strings.TrimSuffix(kind, "-reply")
			onReply := strings.HasSuffix(kind, "-reply")
			for pos := 1; pos <= counts[base]; pos++ {
				if (f.Name == "vector-too-short") && t < 2 {
					continue
				}
				seq++
				account := fmt.Sprintf("D/f-%d-%d-%d", n, t, seq)
				fmt.Printf("CASE n=%d t=%d fault=%s at=%s#%d account=%s\n", n, t, f.Name, kind, pos, account)
				os.Stdout.Sync()
				seen := 0
				fired := false
				invalidating := strings.HasPrefix(f.Name, "share-") || strings.HasPrefix(f.Name, "vector-") || f.Name == "commitment-altered"
				var rejected *bool
				var injectedTo uint64
				c.Observe = func(m *rig.Msg, _ []byte, _ [][]byte, err error) {
					mu.Lock()
					defer mu.Unlock()
					if fired && invalidating && !onReply && m.Kind == "contribute" && m.Account == account && rejected == nil && m.To == injectedTo {
						r := err != nil
						rejected = &r
					}
				}
				c.Hook = func(m *rig.Msg) rig.Action {
					mu.Lock()
					defer mu.Unlock()
					if m.Kind != base || m.Account != account {
						return rig.Action{}
					}
					seen++
					if seen != pos || fired {
						return rig.Action{}
					}
					fired = true
					injectedTo = m.To
					target := m.To // whose id the share must be valid for
					if onReply {
						target = m.From
					}
					other := ids[0]
					if other == target {
						other = ids[1]
					}
					var sec []byte
					var vv [][]byte
					switch f.Name {
					case "lost":
						return rig.Action{Drop: true}
					case "error-reply":
						return rig.Action{ErrorReply: true}
					case "duplicate":
						return rig.Action{Duplicate: true}
					case "share-random":
						var k bls.SecretKey
						k.SetByCSPRNG()
						sec = k.Serialize()
					case "share-for-other-id":
						sec, vv = fakeContribution(t, other)
					case "commitment-altered":
						var k bls.SecretKey
						k.SetByCSPRNG()
						vv = [][]byte{k.GetPublicKey().Serialize()} // marks "replace one entry"
					case "vector-too-short":
						sec, vv = fakeContribution(t-1, target)
					case "vector-too-long":
						sec, vv = fakeContribution(t+1, target)
					case "vector-empty":
						sec, _ = fakeContribution(t, target)
						vv = [][]byte{}
					case "vector-entry-truncated":
						sec, vv = fakeContribution(t, target)
						vv[len(vv)-1] = vv[len(vv)-1][:47]
					case "share-empty":
						_, vv = fakeContribution(t, target)
						sec = []byte{}
					}
					apply := func(s *[]byte, v *[][]byte) {
						if f.Name == "commitment-altered" {
							nv := append([][]byte{}, (*v)...)
							nv[len(nv)-1] = vv[0]
							*v = nv
							return
						}
						if sec != nil {
							*s = sec
						}
						if vv != nil {
							*v = vv
						}
					}
					if onReply {
						return rig.Action{MutateReply: apply}
					}
					apply(&m.Secret, &m.VVec)
					return rig.Action{}
				}
				var pub []byte
				err := rig.Safely(func() error {
					var err error
					pub, _, err = c.Inst[ids[(seq)%n]].Stack.Process.OnGenerate(context.Background(), rig.Client1(), account, []byte("pass"), uint32(t), uint32(n))
					return err
				})
				c.Hook, c.Observe = nil, nil
				holders := dkgHolders(c, account)
				fmt.Printf("DISTINCT n=%d t=%d %s at %s#%d -> failed=%v holders=%d\n", n, t, f.Name, kind, pos, err != nil, len(holders))
				fmt.Printf("STAT cases 1\n")
				if !fired {
					fmt.Printf("STAT not_fired 1\n")
					continue
				}
				if f.Strict {
					if err == nil {
						fmt.Printf("CHILD-VIOLATION generation n=%d t=%d reported success although fault %s was injected at %s message %d\n", n, t, f.Name, kind, pos)
					}
					if len(holders) > 0 {
						fmt.Printf("CHILD-VIOLATION after fault %s at %s message %d (n=%d t=%d) %d participants hold the account\n", f.Name, kind, pos, n, t, len(holders))
					}
					mu.Lock()
					if rejected != nil && !*rejected {
						fmt.Printf("CHILD-VIOLATION the receiving instance accepted a contribution with fault %s (n=%d t=%d, %s message %d)\n", f.Name, n, t, kind, pos)
					}
					if rejected != nil {
						fmt.Printf("STAT receiver_verdicts_observed 1\n")
					}
					mu.Unlock()
				} else if err == nil {
					for _, p := range oracle.CheckDKGViews(holders, pub, uint32(t), ids) {
						fmt.Printf("CHILD-VIOLATION after a duplicate delivery the generation succeeded but: %s\n", p)
					}
				}
			}
		}
	}
	// The cluster must still be able to generate.
	account := fmt.Sprintf("D/after-%d-%d", n, t)
	fmt.Printf("CASE n=%d t=%d clean generation after the fault matrix\n", n, t)
	pub, _, err := c.Inst[ids[0]].Stack.Process.OnGenerate(context.Background(), rig.Client1(), account, []byte("pass"), uint32(t), uint32(n))
	if err != nil {
		fmt.Printf("CHILD-VIOLATION after the fault matrix a clean generation n=%d t=%d fails: %v\n", n, t, err)
	} else {
		for _, p := range oracle.CheckDKGViews(dkgHolders(c, account), pub, uint32(t), ids) {
			fmt.Printf("CHILD-VIOLATION clean generation after the fault matrix: %s\n", p)
		}
	}
	fmt.Printf("STAT configs_completed 1\n")
	// Panics raised inside a handler while it served a message (the routing sender answers them the way a server
	// that recovers would; whether the real daemon survives them is decided by the wire slice).
	fmt.Printf("STAT handler_panics_in_process %d\n", rig.HandlerPanics.Swap(0))
	if p, ok := rig.LastHandlerPanic.Load().(string); ok && p != "" {
		fmt.Printf("DISTINCT in-process handler panic: %s\n", p)
	}
	return true
}

// C13 runs the fault matrix in child processes (a crash of an instance is a violation attributed to the last case).
func C13(cfg Cfg) int {
	run := evid.New("C13", cfg.Tier, cfg.Seed, "fault_enumeration")
	run.Rule = "for (n,t) in {(2,2),(3,2),(3,3),(4,3),(5,3)} (thorough adds (6,4),(7,4)) on a cluster of real instances: at every position of the prepare / execute / contribute message sequence of a generation, each fault kind (message lost, error reply, duplicate delivery, share replaced by a random one, genuine share for another identifier, one commitment altered, genuine vector one entry too short, genuine vector one entry too long, empty vector, vector with a truncated entry, empty share) is injected on the request and, for contributions, also on the reply; " +
		"the generation must fail, no participant may hold the account, the receiving instance must reject an invalid contribution, and the process must survive (a panic inside the goroutine that serves a message is answered as a recovering server would and counted; the wire slice sends the same faulty contributions to a real daemon, which must stay alive); a duplicate contribution is judged only by consistency of a successful result; distinct = (n, t, fault, message kind, position, outcome) cells"
	run.Assume = []string{"faults are injected by the routing sender that replaces the gRPC transport"}
	bin := os.Getenv("VH_BIN")
	if bin == "" {
		bin = "/verif/.bin/vh"
	}
	configs := []string{"2,2", "3,2", "3,3", "4,3", "5,3"}
	if cfg.Thorough() {
		configs = append(configs, "6,4", "7,4", "4,4", "5,4")
	}
	for _, conf := range configs {
		res := runChild(cfg, bin, "C13child", filepath.Join(cfg.Work, "child-"+strings.ReplaceAll(conf, ",", "-")), 10*time.Minute, nil, conf)
		n := absorbChild(run, res, "", "")
		if res.TimedOut {
			run.Inconclusive("child for configuration " + conf + " hung")
			continue
		}
		if strings.Contains(res.Out, "CHILD-INCONCLUSIVE") {
			run.Inconclusive("configuration " + conf + ": " + tail(res.Out, 300))
			continue
		}
		if res.Err != nil && n == 0 {
			// The child died: find the last case it logged.
			last := ""
			for _, l := range strings.Split(res.Out, "\n") {
				if strings.HasPrefix(l, "CASE ") {
					last = l
				}
			}
			run.Violate("an instance crashed during key generation; last case: "+last, tail(res.Out, 4000))
		}
	}
	c13Wire(run, cfg)
	run.Eval(run.Get("cases"))
	run.Sample(map[string]any{"case": "n=3 t=2 fault=vector-too-long at=contribute#2: the sender's contribution is replaced by a genuine degree-2 polynomial (3 commitments) with the matching share for the recipient"})
	if run.Get("cases") == 0 || run.Get("receiver_verdicts_observed") == 0 {
		run.Inconclusive("no fault case was executed")
	}
	return run.Finish()
}

// c13Wire feeds a REAL daemon faulty contributions over TLS/gRPC: the harness plays two configured peers, one
// with a lower identifier (it sends contribution requests to the daemon) and one with a higher identifier (a
// gRPC server the daemon's own sender calls during execute, answering with scripted replies).
func c13Wire(run *evid.Run, cfg Cfg) {
	ca, err := rig.NewCA("verif-ca")
	if err != nil {
		run.Inconclusive(err.Error())
		return
	}
	const lowID, daemonID, highID = uint64(2), uint64(5), uint64(9)
	pDaemon, pHigh := rig.FreePort("127.0.0.1"), rig.FreePort("127.0.0.3")
	peers := map[uint64]string{lowID: "127.0.0.2:1", daemonID: fmt.Sprintf("127.0.0.1:%d", pDaemon), highID: fmt.Sprintf("127.0.0.3:%d", pHigh)}
	d, err := rig.PrepareDaemon(rig.DaemonOpts{Dir: cfg.Dir("c13-wire"), ID: daemonID, IP: "127.0.0.1", Port: pDaemon, CA: ca, Peers: peers,
		Permissions: map[string]map[string][]string{"client1": {"D": {"All"}}}, DistWallets: []string{"D"}, Race: true})
	if err != nil {
		run.Inconclusive(err.Error())
		return
	}
	if err := d.Start(); err != nil {
		run.Inconclusive("cannot start daemon: " + err.Error() + d.LogTail(300))
		return
	}
	defer d.Kill()
	defer daemonRaceReports(run, d, "key-generation messages from two peers")
	high, err := rig.NewFakePeer(ca, "127.0.0.3", pHigh)
	if err != nil {
		run.Inconclusive("cannot start fake peer: " + err.Error())
		return
	}
	defer high.Stop()
	lowCert, _ := ca.Issue(rig.CertOpts{CN: "127.0.0.2", IPs: []string{"127.0.0.2"}})
	conn, err := rig.Dial(d.Addr, rig.ClientTLS(ca, lowCert.TLS), "")
	if err != nil {
		run.Inconclusive(err.Error())
		return
	}
	defer conn.Close()
	dkg := pb.NewDKGClient(conn)
	ids := []uint64{lowID, daemonID, highID}
	t := 2
	call := func() (context.Context, context.CancelFunc) {
		return context.WithTimeout(context.Background(), 20*time.Second)
	}
	holds := func(account string) bool {
		_, accountName, _ := strings.Cut(account, "/")
		w, err := e2wallet.OpenWallet("D", e2wallet.WithStore(filesystem.New(filesystem.WithLocation(filepath.Join(d.Opts.Dir, "wallets")))))
		if err != nil {
			return false
		}
		_, err = w.(e2wtypes.WalletAccountByNameProvider).AccountByName(context.Background(), accountName)
		return err == nil
	}
	// contribution for recipient `to` with the given fault ("" = valid).
	contribution := func(fault string, to uint64) ([]byte, [][]byte) {
		sec, vv := fakeContribution(t, to)
		switch fault {
		case "share-random":
			var k bls.SecretKey
			k.SetByCSPRNG()
			sec = k.Serialize()
		case "share-for-other-id":
			sec, vv = fakeContribution(t, lowID+highID-to+1)
		case "commitment-altered":
			var k bls.SecretKey
			k.SetByCSPRNG()
			vv[len(vv)-1] = k.GetPublicKey().Serialize()
		case "vector-too-short":
			sec, vv = fakeContribution(t-1, to)
		case "vector-too-long":
			sec, vv = fakeContribution(t+1, to)
		case "vector-empty":
			vv = [][]byte{}
		case "vector-entry-truncated":
			vv[len(vv)-1] = vv[len(vv)-1][:47]
		case "share-empty":
			sec = []byte{}
		}
		return sec, vv
	}
	seq := 0
	faults := []string{"", "share-random", "share-for-other-id", "commitment-altered", "vector-too-short", "vector-too-long", "vector-empty", "vector-entry-truncated", "share-empty"}
	for round := 0; round < cfg.N(1, 6); round++ {
		for _, leg := range []string{"request", "reply"} {
			for _, fault := range faults {
				seq++
				account := fmt.Sprintf("D/wire13-%d", seq)
				run.Eval(1)
				witness := map[string]any{"wire": true, "leg": leg, "fault": fault, "account": account}
				req := &pb.PrepareRequest{Account: account, Passphrase: []byte("pass"), Threshold: uint32(t)}
				for _, id := range ids {
					host, port, _ := strings.Cut(peers[id], ":")
					var p uint32
					fmt.Sscan(port, &p)
					req.Participants = append(req.Participants, &pb.Endpoint{Id: id, Name: host, Port: p})
				}
				ctx, cancel := call()
				_, err := dkg.Prepare(ctx, req)
				cancel()
				if err != nil {
					run.Inconclusive("wire prepare failed: " + err.Error())
					return
				}
				// Request leg: the low peer's contribution to the daemon.
				reqFault := ""
				if leg == "request" {
					reqFault = fault
				}
				sec, vv := contribution(reqFault, daemonID)
				ctx, cancel = call()
				cres, cerr := dkg.Contribute(ctx, &pb.ContributeRequest{Account: account, Secret: sec, VerificationVector: vv})
				cancel()
				if reqFault != "" {
					if cerr == nil {
						run.Violate(fmt.Sprintf("wire: the daemon accepted a contribution with fault %s from a peer", fault), witness)
					}
				} else if cerr != nil {
					run.Violate("wire: the daemon rejected a valid contribution: "+cerr.Error(), witness)
				} else {
					// Share ownership: the reply must be the share for the caller (peer 2) and nobody else.
					var sk bls.SecretKey
					if sk.Deserialize(cres.GetSecret()) == nil {
						pub := sk.GetPublicKey().Serialize()
						for _, id := range ids {
							ev, err := oracle.EvalVVec(cres.GetVerificationVector(), id)
							if err == nil && (string(ev) == string(pub)) != (id == lowID) {
								run.Violate(fmt.Sprintf("wire: the contribution reply to peer %d is (not) the share of participant %d", lowID, id), witness)
							}
						}
						run.Count("wire_share_ownership_checks", 1)
					}
				}
				// Reply leg: what the high peer answers when the daemon's own sender calls it during execute.
				repFault := ""
				if leg == "reply" {
					repFault = fault
				}
				rsec, rvv := contribution(repFault, daemonID)
				high.SetReply(func(*pb.ContributeRequest) (*pb.ContributeResponse, error) {
					return &pb.ContributeResponse{Secret: rsec, VerificationVector: rvv}, nil
				})
				ctx, cancel = call()
				_, xerr := dkg.Execute(ctx, &pb.ExecuteRequest{Account: account})
				cancel()
				if repFault != "" && xerr == nil {
					run.Violate(fmt.Sprintf("wire: execute succeeded on the daemon although its peer's contribution reply had fault %s", fault), witness)
				}
				if fault == "" && xerr != nil {
					run.Violate("wire: execute failed with valid contributions: "+xerr.Error(), witness)
				}
				// What the daemon sent to the high peer must be the high peer's own share.
				for _, r := range high.Requests() {
					var sk bls.SecretKey
					if sk.Deserialize(r.GetSecret()) == nil {
						pub := sk.GetPublicKey().Serialize()
						for _, id := range ids {
							ev, err := oracle.EvalVVec(r.GetVerificationVector(), id)
							if err == nil && (string(ev) == string(pub)) != (id == highID) {
								run.Violate(fmt.Sprintf("wire: the contribution the daemon sent to peer %d is (not) the share of participant %d", highID, id), witness)
							}
						}
						run.Count("wire_share_ownership_checks", 1)
					}
				}
				ctx, cancel = call()
				cm, merr := dkg.Commit(ctx, &pb.CommitRequest{Account: account, ConfirmationData: Root32(3)})
				cancel()
				if !d.Alive() {
					run.Violate(fmt.Sprintf("wire: the daemon died after a contribution with fault %q on the %s leg: %s", fault, leg, firstPanicLine(d.LogTail(30000))), witness)
					return
				}
				held := holds(account)
				run.Distinct(fmt.Sprintf("wire %s-leg fault=%q commit-ok=%v account-held=%v", leg, fault, merr == nil, held))
				if fault != "" {
					if merr == nil && len(cm.GetPublicKey()) > 0 {
						run.Violate(fmt.Sprintf("wire: commit succeeded although a contribution had fault %s on the %s leg", fault, leg), witness)
					}
					if held {
						run.Violate(fmt.Sprintf("wire: the daemon holds account %s although a contribution had fault %s on the %s leg", account, fault, leg), witness)
					}
					run.Count("wire_fault_cases", 1)
				} else {
					if merr != nil || !held {
						run.Violate(fmt.Sprintf("wire: a generation with valid contributions did not complete on the daemon (commit err %v, account held %v)", merr, held), witness)
					}
					run.Count("wire_valid_generations", 1)
				}
				ctx, cancel = call()
				_, _ = dkg.Abort(ctx, &pb.AbortRequest{Account: account})
				cancel()
			}
		}
	}
	// Repeated failing exchanges on one link: the peer refuses the daemon's contribution with an RPC error, forty
	// generations in a row.  Each of them ends with an error to whoever drives it (execute returns an error, not
	// silence), the fortieth like the first, and leaves no account.
	for k := 1; k <= 40 && run.NumViolations() == 0; k++ {
		seq++
		account := fmt.Sprintf("D/wire13-%d", seq)
		witness := map[string]any{"wire": true, "leg": "reply", "fault": "error-reply", "account": account, "generation": k}
		req := &pb.PrepareRequest{Account: account, Passphrase: []byte("pass"), Threshold: uint32(t)}
		for _, id := range ids {
			host, port, _ := strings.Cut(peers[id], ":")
			var p uint32
			fmt.Sscan(port, &p)
			req.Participants = append(req.Participants, &pb.Endpoint{Id: id, Name: host, Port: p})
		}
		run.Eval(1)
		ctx, cancel := call()
		_, err := dkg.Prepare(ctx, req)
		expired := ctx.Err() != nil
		cancel()
		if expired {
			run.Violate(fmt.Sprintf("wire: prepare of generation %d was not answered within 20 s after %d generations whose contribution the peer refused", k, k-1), witness)
			break
		}
		if err != nil {
			run.Inconclusive("wire prepare failed: " + err.Error())
			return
		}
		sec, vv := contribution("", daemonID)
		ctx, cancel = call()
		_, _ = dkg.Contribute(ctx, &pb.ContributeRequest{Account: account, Secret: sec, VerificationVector: vv})
		cancel()
		high.SetReply(func(*pb.ContributeRequest) (*pb.ContributeResponse, error) {
			return nil, status.Error(codes.Internal, "contribution refused")
		})
		ctx, cancel = call()
		_, xerr := dkg.Execute(ctx, &pb.ExecuteRequest{Account: account})
		expired = ctx.Err() != nil
		cancel()
		if !d.Alive() {
			run.Violate("wire: the daemon died when its peer refused a contribution: "+firstPanicLine(d.LogTail(30000)), witness)
			return
		}
		if expired {
			run.Violate(fmt.Sprintf("wire: the generation did not end with an error: execute number %d was not answered within 20 s when the peer refused the contribution (the %d before it were answered with an error)", k, k-1), witness)
			break
		}
		if xerr == nil {
			run.Violate("wire: execute succeeded on the daemon although its peer refused the contribution with an error", witness)
		}
		ctx, cancel = call()
		cm, merr := dkg.Commit(ctx, &pb.CommitRequest{Account: account, ConfirmationData: Root32(3)})
		cancel()
		if (merr == nil && len(cm.GetPublicKey()) > 0) || holds(account) {
			run.Violate("wire: a generation whose contribution exchange failed was committed or left an account on the daemon", witness)
		}
		run.Count("wire_refused_contribution_generations", 1)
		run.Distinct(fmt.Sprintf("wire refused contribution: execute-error=%v commit-ok=%v", xerr != nil, merr == nil))
		ctx, cancel = call()
		_, _ = dkg.Abort(ctx, &pb.AbortRequest{Account: account})
		cancel()
	}
	if run.Get("wire_fault_cases") == 0 || run.Get("wire_valid_generations") == 0 {
		run.Inconclusive("the wire slice ran no fault case or no valid generation")
	}
	// Contributions from both peers answered by the daemon at the same time: each reply, as it arrives over the wire,
	// must carry the share of the peer on THAT connection (C16's ownership clause, here through the real server's
	// encoding and sending).
	highCert, _ := ca.Issue(rig.CertOpts{CN: "127.0.0.3", IPs: []string{"127.0.0.3"}})
	connHigh, err := rig.Dial(d.Addr, rig.ClientTLS(ca, highCert.TLS), "")
	if err != nil {
		run.Inconclusive(err.Error())
		return
	}
	defer connHigh.Close()
	dkgHigh := pb.NewDKGClient(connHigh)
	sessions := 8
	var wg sync.WaitGroup
	var mu sync.Mutex
	mixed := 0
	accounts := make([]string, sessions)
	for sidx := 0; sidx < sessions; sidx++ {
		accounts[sidx] = fmt.Sprintf("D/wire13-conc-%d", sidx)
		req := &pb.PrepareRequest{Account: accounts[sidx], Passphrase: []byte("pass"), Threshold: uint32(t)}
		for _, id := range ids {
			host, port, _ := strings.Cut(peers[id], ":")
			var p uint32
			fmt.Sscan(port, &p)
			req.Participants = append(req.Participants, &pb.Endpoint{Id: id, Name: host, Port: p})
		}
		ctx, cancel := call()
		_, err := dkg.Prepare(ctx, req)
		cancel()
		if err != nil {
			run.Inconclusive("wire prepare failed: " + err.Error())
			return
		}
	}
	// Both peers contribute again and again to the prepared sessions (a contribution may be repeated), 24
	// streams each, for a few seconds.
	stop := time.Now().Add(time.Duration(cfg.N(4, 40)) * time.Second)
	for w := 0; w < 48; w++ {
		who := struct {
			id  uint64
			cli pb.DKGClient
		}{lowID, dkg}
		if w%2 == 1 {
			who.id, who.cli = highID, dkgHigh
		}
		w := w
		wg.Add(1)
		go func() {
			defer wg.Done()
			sec, vv := fakeContribution(t, daemonID)
			for k := 0; time.Now().Before(stop); k++ {
				account := accounts[(k+w)%sessions]
				ctx, cancel := call()
				res, err := who.cli.Contribute(ctx, &pb.ContributeRequest{Account: account, Secret: sec, VerificationVector: vv})
				cancel()
				if err != nil {
					continue
				}
				var sk bls.SecretKey
				if sk.Deserialize(res.GetSecret()) != nil {
					continue
				}
				pub := sk.GetPublicKey().Serialize()
				bad := uint64(0)
				for _, id := range ids {
					ev, err := oracle.EvalVVec(res.GetVerificationVector(), id)
					if err == nil && (string(ev) == string(pub)) != (id == who.id) {
						bad = id
					}
				}
				mu.Lock()
				run.Count("wire_concurrent_contribution_replies", 1)
				if bad != 0 {
					mixed++
					if mixed <= 3 {
						run.Violate(fmt.Sprintf("wire: with two peers contributing at the same time, the reply that reached peer %d is (not) the share of participant %d", who.id, bad),
							map[string]any{"account": account, "caller": who.id, "share_matches_id": bad})
					}
				}
				mu.Unlock()
			}
		}()
	}
	wg.Wait()
	run.Eval(run.Get("wire_concurrent_contribution_replies"))
	run.Distinct(fmt.Sprintf("wire: concurrent contributions from two peers, replies checked=%v", run.Get("wire_concurrent_contribution_replies") > 0))
	if run.Get("wire_concurrent_contribution_replies") == 0 {
		run.Inconclusive("no concurrent contribution reply was observed")
	}
	if !d.Alive() {
		run.Violate("wire: the daemon died during concurrent contributions: "+firstPanicLine(d.LogTail(30000)), nil)
	}
}
