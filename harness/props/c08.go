package props

import (
	"context"
	"fmt"
	"math/rand"
	"runtime"
	"sync"

	"verif/harness/evid"
	"verif/harness/oracle"
	"verif/harness/rig"

	"github.com/attestantio/dirk/core"
	"github.com/attestantio/dirk/rules"
)

func randBytes(r *rand.Rand, n int) []byte {
	b := make([]byte, n)
	_, _ = r.Read(b)
	return b
}

func randDomain(r *rand.Rand, prefix []byte) []byte {
	d := randBytes(r, 32)
	copy(d, prefix)
	return d
}

// extreme draws a uint64 with a bias towards the ends of the range.
func extreme(r *rand.Rand) uint64 {
	switch r.Intn(6) {
	case 0:
		return 0
	case 1:
		return 1<<64 - 1
	case 2:
		return 1 << 63
	case 3:
		return uint64(r.Intn(1000))
	}
	return r.Uint64()
}

func wfAtt(r *rand.Rand, env *Env, ki int) *AttCase {
	src := uint64(r.Int63n(1 << 40))
	tgt := src + 1 + uint64(r.Int63n(1<<20))
	if r.Intn(8) == 0 {
		src, tgt = 1<<63-3, 1<<63-1-uint64(r.Intn(2))
	}
	return &AttCase{Key: env.Keys[ki], Name: env.Names[ki], Addr: RandAddr(r),
		Data: &rules.SignBeaconAttestationData{
			Domain: randDomain(r, DomainAttester), Slot: extreme(r), CommitteeIndex: extreme(r),
			BeaconBlockRoot: randBytes(r, 32),
			Source:          &rules.Checkpoint{Epoch: src, Root: randBytes(r, 32)},
			Target:          &rules.Checkpoint{Epoch: tgt, Root: randBytes(r, 32)},
		}}
}

func wfProp(r *rand.Rand, env *Env, ki int) *PropCase {
	return &PropCase{Key: env.Keys[ki], Name: env.Names[ki], Addr: RandAddr(r),
		Data: &rules.SignBeaconProposalData{Domain: randDomain(r, DomainProposer), Slot: uint64(r.Int63()), ProposerIndex: extreme(r),
			ParentRoot: randBytes(r, 32), StateRoot: randBytes(r, 32), BodyRoot: randBytes(r, 32)}}
}

var genericPrefixes = [][]byte{{2, 0, 0, 0}, {3, 0, 0, 0}, {5, 0, 0, 0}, {6, 0, 0, 0}, {7, 0, 0, 0}, {0, 0, 0, 1}, {1, 0, 0, 1}, {0xff, 0xff, 0xff, 0xff}}

func wfGen(r *rand.Rand, env *Env, ki int) *GenCase {
	return &GenCase{Key: env.Keys[ki], Name: env.Names[ki], Addr: RandAddr(r),
		Data: &rules.SignData{Domain: randDomain(r, genericPrefixes[r.Intn(len(genericPrefixes))]), Data: randBytes(r, 32)}}
}

type sigJob struct {
	pub, otherPub []byte
	root          [32]byte
	sig           []byte
	desc          string
}

// verifyAll verifies signatures in parallel; it returns descriptions of the failures.
func verifyAll(jobs []sigJob) (bad []string, crossOK []string) {
	var mu sync.Mutex
	var wg sync.WaitGroup
	ch := make(chan sigJob, len(jobs))
	for _, j := range jobs {
		ch <- j
	}
	close(ch)
	for w := 0; w < 16; w++ {
		wg.Add(1)
		go func() {
			defer wg.Done()
			for j := range ch {
				ok, err := oracle.VerifySig(j.pub, j.root[:], j.sig)
				if !ok {
					mu.Lock()
					bad = append(bad, fmt.Sprintf("%s (err=%v)", j.desc, err))
					mu.Unlock()
				}
				if j.otherPub != nil {
					if ok, _ := oracle.VerifySig(j.otherPub, j.root[:], j.sig); ok {
						mu.Lock()
						crossOK = append(crossOK, j.desc)
						mu.Unlock()
					}
				}
			}
		}()
	}
	wg.Wait()
	return bad, crossOK
}

var c08Procs = []int{1, 2, 3, 5, 8, 16, 61}

// C08 checks that every returned signature verifies for exactly the addressed account and the submitted data.
func C08(cfg Cfg) int {
	run := evid.New("C08", cfg.Tier, cfg.Seed, "exploration")
	run.Rule = "well-formed attestation/proposal/generic requests with random field values, by name or key, single and in batches of many sizes under several GOMAXPROCS settings, at the service and the handler boundary; " +
		"a case is one request entry; distinct = (endpoint, boundary, batch size, GOMAXPROCS) cells in which signatures were verified"
	run.Assume = []string{"signing roots computed by the harness's own SSZ code", "herumi VerifyByte is correct"}
	defer runtime.GOMAXPROCS(runtime.GOMAXPROCS(0))
	r := cfg.Rand("c08")
	env, err := NewEnv(run, cfg, "c08", rig.StackOpts{})
	if err != nil {
		run.Inconclusive(err.Error())
		return run.Finish()
	}
	defer env.Stack.Close()

	sizes := []int{1, 2, 3, 4, 5, 6, 7, 8, 9, 11, 15, 16, 17, 23, 31, 32, 33, 47, 63, 64, 100, 257, 400, 511}
	rounds := cfg.N(2, 60)
	var jobs []sigJob
	flush := func() {
		bad, cross := verifyAll(jobs)
		for _, b := range bad {
			run.Violate("returned signature does not verify for the addressed account over the submitted data: "+b, b)
		}
		for _, c := range cross {
			run.Violate("returned signature also verifies under another account of the batch: "+c, c)
		}
		run.Count("signatures_verified", len(jobs)-len(bad))
		jobs = jobs[:0]
	}
	for round := 0; round < rounds; round++ {
		for si, n := range sizes {
			procs := c08Procs[(si+round)%len(c08Procs)]
			if cfg.Thorough() {
				procs = c08Procs[(si+round*3)%len(c08Procs)]
			}
			runtime.GOMAXPROCS(procs)
			for _, endpoint := range []string{"atts", "multi"} {
				for _, via := range []Via{ViaService, ViaHandler} {
					if !cfg.Thorough() && n > 64 && via == ViaHandler && endpoint == "multi" {
						continue
					}
					env.FreshKeys(n)
					cell := fmt.Sprintf("%s/%s n=%d P=%d", endpoint, viaName(via), n, procs)
					var res []core.Result
					var sigs [][]byte
					roots := make([][32]byte, n)
					descs := make([]string, n)
					markers := map[int]bool{}
					if endpoint == "atts" {
						cs := make([]*AttCase, n)
						for i := range cs {
							cs[i] = wfAtt(r, env, i)
							if n > 1 && r.Intn(9) == 0 {
								// A marker: an attestation no rule can approve (target below source).  Its position must carry
								// its own (negative) verdict; a SUCCEEDED there belongs to some other request.
								cs[i].Data.Source.Epoch, cs[i].Data.Target.Epoch = cs[i].Data.Target.Epoch+1, cs[i].Data.Source.Epoch
								markers[i] = true
							}
							roots[i] = cs[i].SigningRoot()
							descs[i] = descAtt(cs[i])
						}
						res, sigs = env.SignAtts(via, cs)
					} else {
						cs := make([]*GenCase, n)
						shared := n > 1 && r.Intn(3) == 0
						for i := range cs {
							cs[i] = wfGen(r, env, i)
							if shared && i > 0 && r.Intn(2) == 0 {
								// The same message under another domain (and another key) elsewhere in the request.
								cs[i].Data.Data = append([]byte{}, cs[r.Intn(i)].Data.Data...)
							}
							if n > 1 && r.Intn(9) == 0 {
								// A marker: an entry that cannot be hashed (31-byte domain).  It must keep its own negative
								// verdict, and its neighbours must still get signatures of their own entries.
								cs[i].Data.Domain = cs[i].Data.Domain[:31]
								markers[i] = true
								descs[i] = fmt.Sprintf("generic key%d with a 31-byte domain", cs[i].Key.Index)
								continue
							}
							roots[i] = cs[i].SigningRoot()
							descs[i] = fmt.Sprintf("generic key%d dom=%x", cs[i].Key.Index, cs[i].Data.Domain[:4])
						}
						if via == ViaService && n > 1 && r.Intn(2) == 0 {
							// A caller of the Go interface may hold all its roots in one buffer: each entry's data is then a
							// slice with spare capacity that runs into the next entry's bytes.
							buf := make([]byte, 0, 32*n)
							for i := range cs {
								if !markers[i] && len(cs[i].Data.Data) == 32 {
									buf = append(buf, cs[i].Data.Data...)
									cs[i].Data.Data = buf[len(buf)-32:]
								}
							}
						}
						res, sigs = env.SignGens(via, cs)
					}
					run.Eval(n)
					if len(res) != n || len(sigs) != n {
						run.Violate(fmt.Sprintf("%s: %d requests but %d results / %d signatures", cell, n, len(res), len(sigs)), cell)
						continue
					}
					okc := 0
					for i := range res {
						if markers[i] {
							run.Count("marker_entries", 1)
							if res[i] == core.ResultSucceeded || len(sigs[i]) > 0 {
								run.Violate(fmt.Sprintf("%s: entry %d can never be signed (target below source, or a domain that cannot be hashed), yet it came back SUCCEEDED: the verdict at this position belongs to another request (%s)", cell, i, descs[i]), cell)
							}
							continue
						}
						if res[i] != core.ResultSucceeded {
							run.Count("not_signed_wellformed", 1)
							continue
						}
						okc++
						var other []byte
						if n > 1 {
							other = env.Keys[(i+1)%n].Pub
						}
						jobs = append(jobs, sigJob{pub: env.Keys[i].Pub, otherPub: other, root: roots[i], sig: sigs[i], desc: cell + " entry " + fmt.Sprint(i) + " " + descs[i]})
					}
					if okc > 0 {
						run.Distinct(cell)
					}
					if okc != n-len(markers) {
						// C08 does not require signing (C09 does) but a wholly refused well-formed batch leaves nothing to verify.
						run.Count("batches_with_refusals", 1)
					}
				}
			}
			flush()
		}
		// Committee-style batches: many validators attest the SAME data, some of them are refused by slashing
		// protection (they already signed a higher target); every signature that is returned must still verify.
		for bi, n := range []int{3, 4, 9, 16, 33, 64} {
			for _, k := range []int{1, 2, 3} {
				procs := c08Procs[(bi+k+round)%len(c08Procs)]
				runtime.GOMAXPROCS(procs)
				env.FreshKeys(n)
				base := uint64(1000 + r.Intn(1000))
				templates := make([]*AttCase, k)
				for j := range templates {
					templates[j] = wfAtt(r, env, 0)
					templates[j].Data.Source.Epoch, templates[j].Data.Target.Epoch = base, base+1
				}
				refusedKeys := map[int]bool{}
				for i := 0; i < n; i++ {
					if r.Intn(4) == 0 {
						// This validator has already signed beyond the batch's target.
						pre := wfAtt(r, env, i)
						pre.Data.Source.Epoch, pre.Data.Target.Epoch = base+5, base+6
						if v, _ := env.SignAtt(ViaService, pre); v == core.ResultSucceeded {
							refusedKeys[i] = true
						}
					}
				}
				cs := make([]*AttCase, n)
				for i := range cs {
					t := templates[i*k/n]
					d := *t.Data
					cs[i] = &AttCase{Key: env.Keys[i], Name: env.Names[i], Addr: RandAddr(r), Data: &d}
				}
				via := Via((bi + k) % 2)
				res, sigs := env.SignAtts(via, cs)
				run.Eval(n)
				cell := fmt.Sprintf("same-data atts/%s n=%d distinct-data=%d P=%d", viaName(via), n, k, procs)
				if len(res) != n || len(sigs) != n {
					run.Violate(fmt.Sprintf("%s: %d requests but %d results / %d signatures", cell, n, len(res), len(sigs)), cell)
					continue
				}
				for i := range res {
					if refusedKeys[i] {
						run.Count("same_data_refused_entries", 1)
						if res[i] == core.ResultSucceeded {
							run.Violate(fmt.Sprintf("%s: entry %d was signed although its validator had already signed a higher target", cell, i), cell)
						}
						continue
					}
					if res[i] == core.ResultSucceeded {
						jobs = append(jobs, sigJob{pub: env.Keys[i].Pub, root: cs[i].SigningRoot(), sig: sigs[i], desc: fmt.Sprintf("%s entry %d (refused entries: %v)", cell, i, len(refusedKeys))})
						run.Count("same_data_signatures", 1)
					}
				}
				run.Distinct(cell)
			}
		}
		flush()
		// Singles.
		env.FreshKeys(8)
		for k := 0; k < cfg.N(120, 400); k++ {
			procs := c08Procs[k%len(c08Procs)]
			runtime.GOMAXPROCS(procs)
			via := Via(k % 2)
			ki := r.Intn(8)
			var res core.Result
			var sig []byte
			var root [32]byte
			var cell string
			switch k % 3 {
			case 0:
				c := wfAtt(r, env, ki)
				c.Data.Source.Epoch, c.Data.Target.Epoch = uint64(1000*k), uint64(1000*k+1+r.Intn(900))
				root = c.SigningRoot()
				res, sig = env.SignAtt(via, c)
				cell = "att/" + viaName(via) + " single"
			case 1:
				c := wfProp(r, env, ki)
				c.Data.Slot = uint64(1000*k + r.Intn(900))
				root = c.SigningRoot()
				res, sig = env.SignProp(via, c)
				cell = "prop/" + viaName(via) + " single"
			default:
				c := wfGen(r, env, ki)
				root = c.SigningRoot()
				res, sig = env.SignGen(via, c)
				cell = "generic/" + viaName(via) + " single"
			}
			run.Eval(1)
			if res == core.ResultSucceeded {
				run.Distinct(fmt.Sprintf("%s P=%d", cell, procs))
				jobs = append(jobs, sigJob{pub: env.Keys[ki].Pub, otherPub: env.Keys[(ki+1)%8].Pub, root: root, sig: sig, desc: cell})
			} else {
				run.Count("not_signed_wellformed", 1)
			}
		}
		flush()
	}
	if run.Get("signatures_verified") == 0 {
		run.Inconclusive("no signature verified")
	}
	run.Sample(map[string]any{"cells": "see distinct_classes_sample", "sizes": sizes, "gomaxprocs": c08Procs})
	c08RealFetcher(run, cfg)
	c08TwoStores(run, cfg)
	raceChild(run, cfg, "C08race")
	return run.Finish()
}

func init() {
	Children["C08race"] = c08RaceChild
}

// c08RaceChild runs batched signing under the race detector (scatter workers writing result slots).
func c08RaceChild(cfg Cfg) int {
	run := evid.New("C08race", cfg.Tier, cfg.Seed, "exploration")
	r := cfg.Rand("c08race")
	env, err := NewEnv(run, cfg, "c08race", rig.StackOpts{})
	if err != nil {
		fmt.Println("cannot build env:", err)
		return 3
	}
	defer env.Stack.Close()
	ops := 0
	for _, procs := range []int{2, 5, 16} {
		runtime.GOMAXPROCS(procs)
		for _, n := range []int{2, 7, 16, 33, 64} {
			env.FreshKeys(n)
			cs := make([]*AttCase, n)
			gs := make([]*GenCase, n)
			for i := range cs {
				cs[i] = wfAtt(r, env, i)
				gs[i] = wfGen(r, env, i)
			}
			var wg sync.WaitGroup
			wg.Add(2)
			go func() { defer wg.Done(); env.SignAtts(ViaService, cs) }()
			go func() { defer wg.Done(); env.SignGens(ViaHandler, gs) }()
			wg.Wait()
			ops += 2 * n
		}
	}
	fmt.Printf("RACE-CHILD operations %d\n", ops)
	return 0
}

// c08RealFetcher: accounts of real wallets behind the real account fetcher, with names that contain the path
// separator next to siblings named after their prefixes ("val", "val/1", "val/1/2").  A request addressed to one
// of them, by name or by key, single or batched, must be signed by exactly that account.
func c08RealFetcher(run *evid.Run, cfg Cfg) {
	accts := []string{"val", "val/1", "val/1/2", "x/y", "x", "plain"}
	c, err := rig.NewCluster(rig.ClusterOpts{Dir: cfg.Dir("c08-real"), IDs: []uint64{1}, NDWallets: map[string][]string{"Slashy": accts, "val": {"1", "1/2"}}})
	if err != nil {
		run.Inconclusive("real-fetcher slice: " + err.Error())
		return
	}
	defer c.Close()
	st := c.Inst[1].Stack
	bg := context.Background()
	type target struct {
		name string
		key  *rig.Key
	}
	var ts []target
	for i, a := range accts {
		ts = append(ts, target{"Slashy/" + a, rig.DetKey("ndw-Slashy", i)})
	}
	ts = append(ts, target{"val/1", rig.DetKey("ndw-val", 0)}, target{"val/1/2", rig.DetKey("ndw-val", 1)})
	// Accounts created at run time through Dirk, the same account name in two wallets: each is its own account.
	for _, nm := range []string{"Slashy/dyn", "val/dyn", "val/plain"} {
		pub, _, err := st.Process.OnGenerate(bg, rig.Client1(), nm, []byte("pass"), 1, 1)
		if err != nil {
			run.Inconclusive("real-fetcher slice: creating " + nm + ": " + err.Error())
			return
		}
		ts = append(ts, target{nm, &rig.Key{Pub: pub}})
		run.Count("real_fetcher_accounts_created_at_run_time", 1)
	}
	verify := func(what string, t target, root [32]byte, res core.Result, sig []byte) {
		run.Eval(1)
		run.Count("real_fetcher_requests", 1)
		if res != core.ResultSucceeded || len(sig) == 0 {
			run.Distinct(fmt.Sprintf("real fetcher %s %s -> %s", what, t.name, res))
			return
		}
		run.Count("real_fetcher_signatures", 1)
		if ok, _ := oracle.VerifySig(t.key.Pub, root[:], sig); ok {
			run.Distinct(fmt.Sprintf("real fetcher %s %s -> signed by the addressed account", what, t.name))
			return
		}
		by := "no known account"
		for _, o := range ts {
			if ok, _ := oracle.VerifySig(o.key.Pub, root[:], sig); ok {
				by = o.name
			}
		}
		run.Violate(fmt.Sprintf("request addressed to %s (%s) was signed by %s", t.name, what, by), map[string]any{"addressed": t.name, "how": what, "signed_by": by})
	}
	epoch := uint64(5)
	for round := 0; round < 3; round++ {
		for _, t := range ts {
			for _, byKey := range []bool{false, true} {
				name, key, what := t.name, []byte(nil), "by name"
				if byKey {
					name, key, what = "", t.key.Pub, "by key"
				}
				d := &rules.SignData{Domain: Dom([]byte{9, 0, 0, 0}, byte(round)), Data: Root32(byte(40 + round))}
				res, sig := st.Signer.SignGeneric(bg, rig.Client1(), name, key, d)
				verify("generic "+what, t, oracle.SigningRoot(b32(d.Data), d.Domain), res, sig)
			}
		}
		// One batch over all of them, half by name and half by key.
		epoch += 2
		names := make([]string, len(ts))
		keys := make([][]byte, len(ts))
		data := make([]*rules.SignBeaconAttestationData, len(ts))
		for i, t := range ts {
			if (i+round)%2 == 0 {
				names[i] = t.name
			} else {
				keys[i] = t.key.Pub
			}
			data[i] = &rules.SignBeaconAttestationData{Domain: Dom(DomainAttester, 0), Slot: epoch * 32, CommitteeIndex: uint64(i), BeaconBlockRoot: Root32(7),
				Source: &rules.Checkpoint{Epoch: epoch, Root: Root32(1)}, Target: &rules.Checkpoint{Epoch: epoch + 1, Root: Root32(2)}}
		}
		res, sigs := st.Signer.SignBeaconAttestations(bg, rig.Client1(), names, keys, data)
		for i, t := range ts {
			if i < len(res) && i < len(sigs) {
				root := oracle.SigningRoot(oracle.AttestationDataRoot(epoch*32, uint64(i), Root32(7), epoch, Root32(1), epoch+1, Root32(2)), Dom(DomainAttester, 0))
				verify("batch attestation", t, root, res[i], sigs[i])
			}
		}
	}
	if run.Get("real_fetcher_signatures") == 0 {
		run.Inconclusive("real-fetcher slice obtained no signature")
	}
}
