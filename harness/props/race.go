package props

import (
	"bufio"
	"fmt"
	"os"
	"os/exec"
	"path/filepath"
	"regexp"
	"sort"
	"strings"
	"time"

	"verif/harness/evid"
)

var frameRe = regexp.MustCompile(`^\s+(\S+)\(`)

type raceReport struct {
	Accessors [2]string // top dirk frame (or top frame) of each access
	InDirk    bool
	Text      string
}

// parseRaceLogs reads the race detector's log files and returns de-duplicated reports.
func parseRaceLogs(glob string) []raceReport {
	files, _ := filepath.Glob(glob)
	seen := map[string]bool{}
	var res []raceReport
	for _, f := range files {
		fh, err := os.Open(f)
		if err != nil {
			continue
		}
		sc := bufio.NewScanner(fh)
		sc.Buffer(make([]byte, 1<<20), 1<<20)
		var cur []string
		flush := func() {
			if len(cur) == 0 {
				return
			}
			rep := analyseRace(cur)
			k := rep.Accessors[0] + "|" + rep.Accessors[1]
			if !seen[k] {
				seen[k] = true
				res = append(res, rep)
			}
			cur = nil
		}
		in := false
		for sc.Scan() {
			line := sc.Text()
			if strings.HasPrefix(line, "WARNING: DATA RACE") {
				flush()
				in = true
			}
			if in {
				cur = append(cur, line)
				if strings.HasPrefix(line, "==================") && len(cur) > 2 {
					flush()
					in = false
				}
			}
		}
		flush()
		fh.Close()
	}
	return res
}

// analyseRace extracts, for each of the two racing accesses, the accessing (top) frame, and decides
// whether at least one access is performed by Dirk code (outside testing/).
func analyseRace(lines []string) raceReport {
	var rep raceReport
	rep.Text = strings.Join(lines, "\n")
	if len(rep.Text) > 4000 {
		rep.Text = rep.Text[:4000]
	}
	section := -1
	for _, l := range lines {
		switch {
		case strings.HasPrefix(l, "Read at ") || strings.HasPrefix(l, "Write at ") || strings.HasPrefix(l, "Previous read at ") || strings.HasPrefix(l, "Previous write at "):
			section++
			continue
		case strings.HasPrefix(l, "Goroutine ") || strings.HasPrefix(l, "[failed to restore"):
			section = 99
		}
		if section < 0 || section > 1 {
			continue
		}
		if m := frameRe.FindStringSubmatch(l); m != nil && rep.Accessors[section] == "" {
			fn := m[1]
			// Skip runtime/sync wrappers: the accessing frame is the first non-runtime frame.
			if strings.HasPrefix(fn, "runtime.") || strings.HasPrefix(fn, "sync/atomic.") {
				continue
			}
			rep.Accessors[section] = fn
			if strings.Contains(fn, "github.com/attestantio/dirk/") && !strings.Contains(fn, "github.com/attestantio/dirk/testing/") {
				rep.InDirk = true
			}
		}
	}
	sort.Strings(rep.Accessors[:])
	return rep
}

// raceChild runs a workload in the -race build as a child process and judges its reports:
// a report counts against the property only if one of the racing accesses is performed by Dirk code.
func raceChild(run *evid.Run, cfg Cfg, role string, extra ...string) {
	bin := os.Getenv("VH_RACE_BIN")
	if bin == "" {
		bin = "/verif/.bin/vh-race"
	}
	if _, err := os.Stat(bin); err != nil {
		run.Inconclusive("race build missing: " + bin)
		return
	}
	dir := filepath.Join(cfg.Work, "race-"+role)
	_ = os.RemoveAll(dir)
	_ = os.MkdirAll(dir, 0o755)
	args := append([]string{role, "-tier", cfg.Tier, "-seed", fmt.Sprint(cfg.Seed), "-work", dir}, extra...)
	cmd := exec.Command(bin, args...)
	cmd.Env = append(os.Environ(), "GORACE=halt_on_error=0 log_path="+filepath.Join(dir, "race"))
	out, _ := os.Create(filepath.Join(dir, "out.txt"))
	cmd.Stdout, cmd.Stderr = out, out
	done := make(chan error, 1)
	if err := cmd.Start(); err != nil {
		run.Inconclusive("cannot start race child: " + err.Error())
		return
	}
	go func() { done <- cmd.Wait() }()
	var werr error
	select {
	case werr = <-done:
	case <-time.After(20 * time.Minute):
		_ = cmd.Process.Kill()
		run.Inconclusive("race child " + role + " exceeded its watchdog")
		return
	}
	out.Close()
	outText, _ := os.ReadFile(filepath.Join(dir, "out.txt"))
	// The child reports what it did on lines "RACE-CHILD key=value".
	for _, l := range strings.Split(string(outText), "\n") {
		if strings.HasPrefix(l, "RACE-CHILD ") {
			var k string
			var v int
			if _, err := fmt.Sscanf(l, "RACE-CHILD %s %d", &k, &v); err == nil {
				run.Count("race_child_"+k, v)
			}
		}
		if strings.HasPrefix(l, "CHILD-VIOLATION ") {
			run.Violate("under -race: "+strings.TrimPrefix(l, "CHILD-VIOLATION "), string(outText))
		}
	}
	reports := parseRaceLogs(filepath.Join(dir, "race.*"))
	dirk := 0
	for _, rep := range reports {
		if rep.InDirk {
			dirk++
			run.Violate(fmt.Sprintf("data race with an access in Dirk code: %s <-> %s", rep.Accessors[0], rep.Accessors[1]), rep.Text)
		} else {
			run.Count("race_reports_outside_dirk", 1)
		}
	}
	run.Count("race_reports_in_dirk", dirk)
	run.Count("race_reports_total", len(reports))
	if werr != nil && len(reports) == 0 {
		tail := string(outText)
		if len(tail) > 1500 {
			tail = tail[len(tail)-1500:]
		}
		run.Inconclusive(fmt.Sprintf("race child %s failed: %v: %s", role, werr, tail))
	}
	if run.Get("race_child_operations") == 0 {
		run.Inconclusive("race child " + role + " reported no operations")
	}
}
