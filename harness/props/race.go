package props

import (
	"bufio"
	"fmt"
	"os"
	"os/exec"
	"path/filepath"
	"regexp"
	"sort"
	"strings"
	"syscall"
	"time"

	"verif/harness/evid"
	"verif/harness/rig"
)

var frameRe = regexp.MustCompile(`^\s+(\S+)\(`)

type raceReport struct {
	Accessors [2]string // top dirk frame (or top frame) of each access
	InDirk    bool
	Text      string
}

// parseRaceLogs reads the race detector's log files and returns de-duplicated reports.
func parseRaceLogs(glob string) []raceReport {
	files, _ := filepath.Glob(glob)
	seen := map[string]bool{}
	var res []raceReport
	for _, f := range files {
		fh, err := os.Open(f)
		if err != nil {
			continue
		}
		sc := bufio.NewScanner(fh)
		sc.Buffer(make([]byte, 1<<20), 1<<20)
		var cur []string
		flush := func() {
			if len(cur) == 0 {
				return
			}
			rep := analyseRace(cur)
			k := rep.Accessors[0] + "|" + rep.Accessors[1]
			if !seen[k] {
				seen[k] = true
				res = append(res, rep)
			}
			cur = nil
		}
		in := false
		for sc.Scan() {
			line := sc.Text()
			if strings.HasPrefix(line, "WARNING: DATA RACE") {
				flush()
				in = true
			}
			if in {
				cur = append(cur, line)
				if strings.HasPrefix(line, "==================") && len(cur) > 2 {
					flush()
					in = false
				}
			}
		}
		flush()
		fh.Close()
	}
	return res
}

// analyseRace extracts, for each of the two racing accesses, the accessing (top) frame, and decides
// whether at least one access is performed by Dirk code (outside testing/).
func analyseRace(lines []string) raceReport {
	var rep raceReport
	rep.Text = strings.Join(lines, "\n")
	if len(rep.Text) > 4000 {
		rep.Text = rep.Text[:4000]
	}
	section := -1
	for _, l := range lines {
		switch {
		case strings.HasPrefix(l, "Read at ") || strings.HasPrefix(l, "Write at ") || strings.HasPrefix(l, "Previous read at ") || strings.HasPrefix(l, "Previous write at "):
			section++
			continue
		case strings.HasPrefix(l, "Goroutine ") || strings.HasPrefix(l, "[failed to restore"):
			section = 99
		}
		if section < 0 || section > 1 {
			continue
		}
		if m := frameRe.FindStringSubmatch(l); m != nil && rep.Accessors[section] == "" {
			fn := m[1]
			// Skip runtime/sync wrappers: the accessing frame is the first non-runtime frame.
			if strings.HasPrefix(fn, "runtime.") || strings.HasPrefix(fn, "sync/atomic.") {
				continue
			}
			rep.Accessors[section] = fn
			if strings.Contains(fn, "github.com/attestantio/dirk/") && !strings.Contains(fn, "github.com/attestantio/dirk/testing/") {
				rep.InDirk = true
			}
		}
	}
	sort.Strings(rep.Accessors[:])
	return rep
}

// raceChild runs a workload in the -race build as a child process and judges its reports:
// a report counts against the property only if one of the racing accesses is performed by Dirk code.
func raceChild(run *evid.Run, cfg Cfg, role string, extra ...string) {
	bin := os.Getenv("VH_RACE_BIN")
	if bin == "" {
		bin = "/verif/.bin/vh-race"
	}
	if _, err := os.Stat(bin); err != nil {
		run.Inconclusive("race build missing: " + bin)
		return
	}
	dir := filepath.Join(cfg.Work, "race-"+role)
	res := runChild(cfg, bin, role, dir, 20*time.Minute, []string{"GORACE=halt_on_error=0 log_path=" + filepath.Join(dir, "race")}, extra...)
	if res.TimedOut {
		run.Inconclusive("race child " + role + " exceeded its watchdog")
		return
	}
	res.Violations = absorbChild(run, res, "race_child_", "under -race: ")
	reports := parseRaceLogs(filepath.Join(dir, "race.*"))
	dirk := 0
	for _, rep := range reports {
		if rep.InDirk {
			dirk++
			run.Violate(fmt.Sprintf("data race with an access in Dirk code: %s <-> %s", rep.Accessors[0], rep.Accessors[1]), rep.Text)
		} else {
			run.Count("race_reports_outside_dirk", 1)
		}
	}
	run.Count("race_reports_in_dirk", dirk)
	run.Count("race_reports_total", len(reports))
	if res.Err != nil && len(reports) == 0 && res.Violations == 0 {
		run.Inconclusive(fmt.Sprintf("race child %s failed: %v: %s", role, res.Err, tail(res.Out, 1500)))
	}
	if run.Get("race_child_operations") == 0 {
		run.Inconclusive("race child " + role + " reported no operations")
	}
}

func tail(s string, n int) string {
	if len(s) > n {
		return s[len(s)-n:]
	}
	return s
}

// childResult is what a child process left behind.
type childResult struct {
	Out        string
	Err        error
	TimedOut   bool
	Violations int
	Dir        string
}

// runChild runs a vh role as a child process with its output in <dir>/out.txt.
func runChild(cfg Cfg, bin, role, dir string, watchdog time.Duration, env []string, extra ...string) childResult {
	_ = os.RemoveAll(dir)
	_ = os.MkdirAll(dir, 0o755)
	args := append([]string{role, "-tier", cfg.Tier, "-seed", fmt.Sprint(cfg.Seed), "-work", dir}, extra...)
	cmd := exec.Command(bin, args...)
	cmd.Env = append(os.Environ(), env...)
	outPath := filepath.Join(dir, "out.txt")
	out, _ := os.Create(outPath)
	cmd.Stdout, cmd.Stderr = out, out
	res := childResult{Dir: dir}
	if err := cmd.Start(); err != nil {
		res.Err = err
		return res
	}
	done := make(chan error, 1)
	go func() { done <- cmd.Wait() }()
	select {
	case res.Err = <-done:
	case <-time.After(watchdog):
		// SIGQUIT first so that the goroutine dump lands in out.txt.
		_ = cmd.Process.Signal(syscall.SIGQUIT)
		select {
		case <-done:
		case <-time.After(10 * time.Second):
			_ = cmd.Process.Kill()
			<-done
		}
		res.TimedOut = true
	}
	out.Close()
	b, _ := os.ReadFile(outPath)
	res.Out = string(b)
	return res
}

// absorbChild folds a child's "RACE-CHILD k v" / "STAT k v" counters and CHILD-VIOLATION lines into the run.
func absorbChild(run *evid.Run, res childResult, prefix, violPrefix string) (violations int) {
	for _, l := range strings.Split(res.Out, "\n") {
		if strings.HasPrefix(l, "RACE-CHILD ") || strings.HasPrefix(l, "STAT ") {
			f := strings.Fields(l)
			if len(f) == 3 {
				var v int
				if _, err := fmt.Sscan(f[2], &v); err == nil {
					run.Count(prefix+f[1], v)
				}
			}
		}
		if strings.HasPrefix(l, "DISTINCT ") {
			run.Distinct(strings.TrimPrefix(l, "DISTINCT "))
		}
		if strings.HasPrefix(l, "CHILD-VIOLATION ") {
			violations++
			run.Violate(violPrefix+strings.TrimPrefix(l, "CHILD-VIOLATION "), tail(res.Out, 6000))
		}
	}
	return violations
}

// daemonRaceReports reads the race detector's reports of a daemon started with DaemonOpts.Race and turns those
// with an access in Dirk's own code into violations.
func daemonRaceReports(run *evid.Run, d *rig.Daemon, what string) {
	reports := parseRaceLogs(filepath.Join(d.Opts.Dir, "race.*"))
	dirk := 0
	for _, rep := range reports {
		if rep.InDirk {
			dirk++
			if dirk <= 3 {
				run.Violate(fmt.Sprintf("data race in the daemon (%s) with an access in Dirk code: %s <-> %s", what, rep.Accessors[0], rep.Accessors[1]), rep.Text)
			}
		} else {
			run.Count("daemon_race_reports_outside_dirk", 1)
		}
	}
	run.Count("daemon_race_reports_in_dirk", dirk)
	run.Count("daemon_race_runs", 1)
}
