package props

import (
	"context"
	"fmt"
	"os"
	"sort"
	"strings"
	"sync"
	"time"

	"verif/harness/evid"
	"verif/harness/oracle"
	"verif/harness/rig"

	pb "github.com/wealdtech/eth2-signer-api/pb/v1"
	"google.golang.org/grpc"
)

func idSet(kind string, n int) []uint64 {
	ids := make([]uint64, n)
	for i := range ids {
		switch kind {
		case "small":
			ids[i] = uint64(i + 1)
		case "sparse":
			ids[i] = uint64(1000003*(i+1) + 17)
		case "around-2^63":
			ids[i] = 1<<63 - 2 + uint64(i)
		default: // near-2^64
			ids[i] = 1<<64 - 1 - uint64(i)
		}
	}
	return ids
}

// C12 runs real distributed key generations on in-process clusters and checks the result.
func C12(cfg Cfg) int {
	run := evid.New("C12", cfg.Tier, cfg.Seed, "exploration")
	run.Rule = "for every n in 2..7 a cluster of n real instances (real distributed wallets, receiver handlers, process services, joined by a routing sender that can delay and tamper): every t in 0..n+1 is requested (in-range must succeed, out-of-range must be refused and create nothing), participant identifier sets {1..n, sparse, around 2^63, near 2^64}, different initiating instances, seeded delays on the parallel commit calls (distinct arrival orders are counted), tampered commit replies; " +
		"after a success the accounts are read back from every participant's wallet store and checked (same composite key = returned key, same vector of t entries, threshold, participants, share consistent with the vector), every participant signs and lists without restart, every t-subset recovers a valid signature and (t-1)-subsets do not; distinct = (n, t, id set, initiator position, outcome) cells and commit arrival orders"
	run.Assume = []string{"herumi's polynomial evaluation and signature recovery are used by the oracle (not Dirk's code paths)", "the routing sender replaces the gRPC transport in this in-process check (the wire slice uses real daemons)"}
	r := cfg.Rand("c12")
	idKinds := []string{"small", "sparse", "around-2^63", "near-2^64"}
	orders := map[string]bool{}
	maxN := 7
	for n := 2; n <= maxN && run.NumViolations() < 5; n++ {
		kinds := []string{idKinds[(n+int(cfg.Seed))%len(idKinds)]}
		if cfg.Thorough() || n <= 4 {
			kinds = idKinds
		}
		for _, kind := range kinds {
			ids := idSet(kind, n)
			c, err := rig.NewCluster(rig.ClusterOpts{DistinctGenPass: true, Dir: cfg.Dir(fmt.Sprintf("c12-%d-%s", n, kind)), IDs: ids})
			if err != nil {
				run.Inconclusive("cannot build cluster: " + err.Error())
				return run.Finish()
			}
			var cmu sync.Mutex
			var arrivals []uint64
			tamper := ""
			tamperTo := uint64(0)
			c.Hook = func(m *rig.Msg) rig.Action {
				if m.Kind != "commit" {
					return rig.Action{}
				}
				cmu.Lock()
				d := time.Duration(r.Intn(6)) * time.Millisecond
				tm, tt := tamper, tamperTo
				cmu.Unlock()
				act := rig.Action{Delay: d}
				if tm != "" && m.To == tt {
					act.MutateCommit = func(pk *[]byte, sig *[]byte) {
						switch tm {
						case "pubkey":
							*pk = rig.DetKey("tamper", 1).Pub
						case "signature":
							*sig = rig.DetKey("tamper", 2).Priv.Sign([]byte("x")).Marshal()
						case "empty-pubkey":
							*pk = nil
						}
					}
				}
				return act
			}
			c.Observe = nil
			seq := 0
			for t := 0; t <= n+1 && run.NumViolations() < 5; t++ {
				inRange := t > n/2 && t <= n
				initiators := []int{(t + n) % n}
				if cfg.Thorough() && inRange {
					initiators = nil
					for i := 0; i < n; i++ {
						initiators = append(initiators, i)
					}
				}
				for _, ini := range initiators {
					seq++
					account := fmt.Sprintf("D/gen-%d-%d-%d", n, t, seq)
					inst := c.Inst[ids[ini]]
					cmu.Lock()
					arrivals = nil
					cmu.Unlock()
					// Every second request carries no passphrase: the participants then fall back to their configured
					// generation passphrase (which their unlockers know).
					pp := []byte("pass")
					if seq%2 == 0 {
						pp = nil
					}
					pub, parts, err := inst.Stack.Process.OnGenerate(context.Background(), rig.Client1(), account, pp, uint32(t), uint32(n))
					run.Eval(1)
					cell := fmt.Sprintf("n=%d t=%d ids=%s initiator=%d in-range=%v client-passphrase=%v ok=%v", n, t, kind, ini, inRange, pp != nil, err == nil)
					run.Distinct(cell)
					ctx := map[string]any{"n": n, "t": t, "ids": ids, "initiator": ids[ini], "account": account}
					if !inRange {
						if err == nil {
							run.Violate(fmt.Sprintf("generation with n=%d t=%d was accepted (allowed only n/2 < t <= n)", n, t), ctx)
						}
						if h := dkgHolders(c, account); len(h) > 0 {
							run.Violate(fmt.Sprintf("refused generation n=%d t=%d left an account on %d participants", n, t, len(h)), ctx)
						}
						run.Count("out_of_range_refused", 1)
						continue
					}
					if err != nil {
						run.Violate(fmt.Sprintf("generation with n=%d t=%d ids=%v failed: %v", n, t, ids, err), ctx)
						continue
					}
					if len(parts) != n {
						run.Violate(fmt.Sprintf("generation returned %d participants for n=%d", len(parts), n), ctx)
					}
					views := dkgHolders(c, account)
					for _, p := range oracle.CheckDKGViews(views, pub, uint32(t), ids) {
						run.Violate("after a successful generation: "+p, ctx)
					}
					problems, tried := dkgThresholdSign(c, account, pub, t, byte(seq))
					for _, p := range problems {
						run.Violate("after a successful generation: "+p, ctx)
					}
					run.Count("generations_succeeded", 1)
					run.Count("signature_subsets_checked", tried)
					if seq <= 2 {
						run.Sample(map[string]any{"n": n, "t": t, "ids": fmt.Sprint(ids), "composite": fmt.Sprintf("%x", pub), "holders": len(views), "subsets_checked": tried})
					}
				}
			}
			// Tampered commit replies must never be reported as success.
			for k, tm := range []string{"pubkey", "signature", "empty-pubkey"} {
				if !cfg.Thorough() && (k+n)%3 != 0 {
					continue
				}
				t := n/2 + 1
				account := fmt.Sprintf("D/tamper-%d-%s", n, tm)
				cmu.Lock()
				tamper, tamperTo = tm, ids[(k+1)%n]
				cmu.Unlock()
				_, _, err := c.Inst[ids[0]].Stack.Process.OnGenerate(context.Background(), rig.Client1(), account, []byte("pass"), uint32(t), uint32(n))
				cmu.Lock()
				tamper = ""
				cmu.Unlock()
				run.Eval(1)
				run.Distinct(fmt.Sprintf("tampered commit reply %s n=%d -> ok=%v", tm, n, err == nil))
				if err == nil {
					run.Violate(fmt.Sprintf("generation reported success although the commit reply of participant %d was tampered (%s)", tamperTo, tm), map[string]any{"n": n, "t": t, "tamper": tm})
				}
				run.Count("tampered_commit_cases", 1)
			}
			_ = arrivals
			c.Close()
			_ = os.RemoveAll(cfg.Dir(fmt.Sprintf("c12-%d-%s", n, kind)))
		}
	}
	c12Retry(run, cfg)
	c12Concurrent(run, cfg)
	c12Wire(run, cfg)
	// Commit arrival orders: observed through the routing sender's sequence numbers in a dedicated small cluster.
	c12Orders(run, cfg, orders)
	if run.Get("generations_succeeded") == 0 {
		run.Inconclusive("no generation succeeded")
	}
	return run.Finish()
}

// c12Orders repeats 3-party generations with random commit delays and counts distinct completion orders.
func c12Orders(run *evid.Run, cfg Cfg, orders map[string]bool) {
	r := cfg.Rand("c12-orders")
	ids := []uint64{1, 2, 3}
	c, err := rig.NewCluster(rig.ClusterOpts{DistinctGenPass: true, Dir: cfg.Dir("c12-orders"), IDs: ids})
	if err != nil {
		run.Inconclusive(err.Error())
		return
	}
	defer c.Close()
	var mu sync.Mutex
	var done []string
	c.Hook = func(m *rig.Msg) rig.Action {
		if m.Kind != "commit" {
			return rig.Action{}
		}
		mu.Lock()
		d := time.Duration(r.Intn(30)) * time.Millisecond
		mu.Unlock()
		return rig.Action{Delay: d, MutateCommit: func(*[]byte, *[]byte) {
			mu.Lock()
			done = append(done, fmt.Sprint(m.To))
			mu.Unlock()
		}}
	}
	for k := 0; k < cfg.N(8, 60); k++ {
		mu.Lock()
		done = nil
		mu.Unlock()
		account := fmt.Sprintf("D/order-%d", k)
		pub, _, err := c.Inst[ids[k%3]].Stack.Process.OnGenerate(context.Background(), rig.Client1(), account, []byte("pass"), 2, 3)
		run.Eval(1)
		mu.Lock()
		order := strings.Join(done, "<")
		mu.Unlock()
		if err != nil {
			run.Violate(fmt.Sprintf("generation failed with commit replies arriving in order %s: %v", order, err), nil)
			continue
		}
		for _, p := range oracle.CheckDKGViews(dkgHolders(c, account), pub, 2, ids) {
			run.Violate("commit arrival order "+order+": "+p, nil)
		}
		orders[order] = true
		run.Count("generations_succeeded", 1)
	}
	keys := make([]string, 0, len(orders))
	for o := range orders {
		keys = append(keys, o)
		run.Distinct("commit arrival order " + o)
	}
	sort.Strings(keys)
	run.Set("commit_arrival_orders_seen", keys)
}

// c12Retry: a first attempt is committed on only some participants (the commit messages to the others are
// lost), the stale sessions are aborted, and the same name is requested again from an instance that does not
// hold the account.  Whatever the second attempt reports, a reported success must be a consistent key.
func c12Retry(run *evid.Run, cfg Cfg) {
	for round := 0; round < cfg.N(4, 24) && run.NumViolations() < 5; round++ {
		n := 3 + round%2
		t := n/2 + 1
		ids := idSet("small", n)
		c, err := rig.NewCluster(rig.ClusterOpts{DistinctGenPass: true, Dir: cfg.Dir(fmt.Sprintf("c12-retry-%d", round)), IDs: ids})
		if err != nil {
			run.Inconclusive(err.Error())
			return
		}
		account := fmt.Sprintf("D/retried-%d", round)
		keep := ids[1+round%(n-1)] // the only participant whose commit message gets through
		c.Hook = func(m *rig.Msg) rig.Action {
			if m.Kind == "commit" && m.To != keep {
				return rig.Action{Drop: true}
			}
			return rig.Action{}
		}
		_, _, err1 := c.Inst[ids[0]].Stack.Process.OnGenerate(context.Background(), rig.Client1(), account, []byte("pass"), uint32(t), uint32(n))
		c.Hook = nil
		if err1 == nil {
			run.Violate("generation reported success although commit messages were lost", nil)
		}
		first := dkgHolders(c, account)
		// Clear the sessions that never committed (a coordinator's abort, or the timeout, does this).
		peer := c.Endpoint(ids[0]).Name
		for _, id := range ids {
			_, _ = c.Inst[id].Stack.ReceiverH.Abort(rig.PeerCtx(peer), &pb.AbortRequest{Account: account})
		}
		pub, _, err2 := c.Inst[ids[0]].Stack.Process.OnGenerate(context.Background(), rig.Client1(), account, []byte("pass"), uint32(t), uint32(n))
		run.Eval(1)
		run.Distinct(fmt.Sprintf("retry after partial commit n=%d holders-after-first=%d second-ok=%v", n, len(first), err2 == nil))
		run.Count("retry_scenarios", 1)
		if err2 == nil {
			ctx := map[string]any{"n": n, "t": t, "committed_in_first_attempt": keep}
			for _, p := range oracle.CheckDKGViews(dkgHolders(c, account), pub, uint32(t), ids) {
				run.Violate("retry after a partially committed attempt reported success but: "+p, ctx)
			}
			problems, _ := dkgThresholdSign(c, account, pub, t, byte(round))
			for _, p := range problems {
				run.Violate("retry after a partially committed attempt reported success but: "+p, ctx)
			}
		}
		c.Close()
	}
}

// c12Wire runs generations on three real daemons over TLS/gRPC (main.go's own wiring of process, peers and
// the gRPC sender), requested through AccountManager.Generate.
func c12Wire(run *evid.Run, cfg Cfg) {
	ca, err := rig.NewCA("verif-ca")
	if err != nil {
		run.Inconclusive(err.Error())
		return
	}
	ids := []uint64{1, 2, 3}
	peers := map[uint64]string{}
	ports := map[uint64]int{}
	for _, id := range ids {
		ip := fmt.Sprintf("127.0.0.%d", id)
		ports[id] = rig.FreePort(ip)
		peers[id] = fmt.Sprintf("%s:%d", ip, ports[id])
	}
	var ds []*rig.Daemon
	defer func() {
		for _, d := range ds {
			d.Kill()
		}
	}()
	for _, id := range ids {
		d, err := rig.PrepareDaemon(rig.DaemonOpts{Dir: cfg.Dir(fmt.Sprintf("c12-wire-%d", id)), ID: id, IP: fmt.Sprintf("127.0.0.%d", id), Port: ports[id], CA: ca, Peers: peers,
			Permissions: map[string]map[string][]string{"client1": {"D": {"All"}}}, DistWallets: []string{"D"}})
		if err != nil {
			run.Inconclusive("cannot prepare daemon: " + err.Error())
			return
		}
		if err := d.Start(); err != nil {
			run.Inconclusive("cannot start daemon: " + err.Error() + d.LogTail(400))
			return
		}
		ds = append(ds, d)
	}
	crt, _ := ca.Issue(rig.CertOpts{CN: "client1"})
	conns := map[uint64]*grpc.ClientConn{}
	for i, id := range ids {
		conn, err := rig.Dial(ds[i].Addr, rig.ClientTLS(ca, crt.TLS), "")
		if err != nil {
			run.Inconclusive(err.Error())
			return
		}
		defer conn.Close()
		conns[id] = conn
	}
	seq := 0
	for _, tc := range []struct{ n, t uint32 }{{3, 2}, {3, 3}, {2, 2}, {3, 1}, {3, 4}, {2, 1}} {
		for ini := 0; ini < cfg.N(1, 3); ini++ {
			seq++
			account := fmt.Sprintf("D/wire-%d", seq)
			am := pb.NewAccountManagerClient(conns[ids[(seq+ini)%3]])
			ctx, cancel := context.WithTimeout(context.Background(), 60*time.Second)
			res, err := am.Generate(ctx, &pb.GenerateRequest{Account: account, Passphrase: []byte("pass"), Participants: tc.n, SigningThreshold: tc.t})
			cancel()
			run.Eval(1)
			inRange := tc.t > tc.n/2 && tc.t <= tc.n
			ok := err == nil && res.GetState() == pb.ResponseState_SUCCEEDED
			run.Distinct(fmt.Sprintf("wire n=%d t=%d in-range=%v ok=%v", tc.n, tc.t, inRange, ok))
			witness := map[string]any{"wire": true, "n": tc.n, "t": tc.t, "account": account, "message": res.GetMessage()}
			if !inRange {
				if ok {
					run.Violate(fmt.Sprintf("wire: generation with n=%d t=%d was accepted", tc.n, tc.t), witness)
				}
				continue
			}
			if !ok {
				run.Violate(fmt.Sprintf("wire: generation with n=%d t=%d failed: %v %s", tc.n, tc.t, err, res.GetMessage()), witness)
				continue
			}
			part := []uint64{}
			for _, p := range res.GetParticipants() {
				part = append(part, p.GetId())
			}
			if len(part) != int(tc.n) {
				run.Violate(fmt.Sprintf("wire: generation returned %d participants for n=%d", len(part), tc.n), witness)
				continue
			}
			pub := res.GetPublicKey()
			// Every participant signs and lists without restart; partial signatures must recover.
			data, dom := Root32(byte(seq)), Dom([]byte{9, 0, 0, 0}, byte(seq))
			root := oracle.SigningRoot(b32(data), dom)
			sigs := map[uint64][]byte{}
			for _, id := range part {
				ctx, cancel := context.WithTimeout(context.Background(), 30*time.Second)
				sr, err := pb.NewSignerClient(conns[id]).Sign(ctx, &pb.SignRequest{Id: &pb.SignRequest_Account{Account: account}, Data: data, Domain: dom})
				lr, lerr := pb.NewListerClient(conns[id]).ListAccounts(ctx, &pb.ListAccountsRequest{Paths: []string{"D"}})
				cancel()
				if err != nil || sr.GetState() != pb.ResponseState_SUCCEEDED {
					run.Violate(fmt.Sprintf("wire: participant %d cannot sign with the new account without restart: %v %v", id, sr.GetState(), err), witness)
					continue
				}
				sigs[id] = sr.GetSignature()
				found := false
				if lerr == nil {
					for _, a := range lr.GetDistributedAccounts() {
						if a.GetName() == account {
							found = true
							if string(a.GetCompositePublicKey()) != string(pub) {
								run.Violate(fmt.Sprintf("wire: participant %d lists the account with another composite key", id), witness)
							}
							if a.GetSigningThreshold() != tc.t || len(a.GetParticipants()) != int(tc.n) {
								run.Violate(fmt.Sprintf("wire: participant %d lists threshold %d / %d participants, requested %d / %d", id, a.GetSigningThreshold(), len(a.GetParticipants()), tc.t, tc.n), witness)
							}
						}
					}
				}
				if !found {
					run.Violate(fmt.Sprintf("wire: participant %d does not list the new account without restart", id), witness)
				}
			}
			if len(sigs) == len(part) {
				for _, sub := range oracle.Subsets(part, int(tc.t), 16) {
					rec, err := oracle.Recover(sigs, sub)
					if err != nil {
						run.Violate("wire: cannot recover: "+err.Error(), witness)
					} else if ok, _ := oracle.VerifySig(pub, root[:], rec); !ok {
						run.Violate(fmt.Sprintf("wire: signature recovered from participants %v is not valid under the composite key", sub), witness)
					}
					run.Count("wire_signature_subsets_checked", 1)
				}
				if tc.t > 1 {
					for _, sub := range oracle.Subsets(part, int(tc.t)-1, 16) {
						if rec, err := oracle.Recover(sigs, sub); err == nil {
							if ok, _ := oracle.VerifySig(pub, root[:], rec); ok {
								run.Violate(fmt.Sprintf("wire: %d participants %v produced a valid signature (threshold %d)", tc.t-1, sub, tc.t), witness)
							}
						}
					}
				}
			}
			run.Count("wire_generations_succeeded", 1)
		}
	}
	for i, d := range ds {
		if !d.Alive() {
			run.Violate(fmt.Sprintf("daemon %d died during key generation: %s", ids[i], d.LogTail(600)), nil)
		}
	}
	if run.Get("wire_generations_succeeded") == 0 {
		run.Inconclusive("no generation succeeded over the wire")
	}
}

// c12Concurrent: several generations for different accounts of the SAME wallet run at the same time from different
// initiators.  Every one that reports success must have left a complete, consistent, usable account on every
// participant - none may be lost to another generation's write of the wallet.
func c12Concurrent(run *evid.Run, cfg Cfg) {
	ids := idSet("small", 3)
	c, err := rig.NewCluster(rig.ClusterOpts{DistinctGenPass: true, Dir: cfg.Dir("c12-concurrent"), IDs: ids})
	if err != nil {
		run.Inconclusive(err.Error())
		return
	}
	defer c.Close()
	type outcome struct {
		account string
		pub     []byte
		err     error
	}
	rounds := cfg.N(5, 40)
	for round := 0; round < rounds && run.NumViolations() < 5; round++ {
		var wg sync.WaitGroup
		outs := make([]outcome, 3)
		for k := 0; k < 3; k++ {
			wg.Add(1)
			go func(k int) {
				defer wg.Done()
				account := fmt.Sprintf("D/conc-%d-%d", round, k)
				pub, _, err := c.Inst[ids[k]].Stack.Process.OnGenerate(context.Background(), rig.Client1(), account, []byte("pass"), 2, 3)
				outs[k] = outcome{account, pub, err}
			}(k)
		}
		wg.Wait()
		for _, o := range outs {
			run.Eval(1)
			run.Count("concurrent_generations", 1)
			if o.err != nil {
				// Two coordinators may legitimately get in each other's way; a refusal is not this property's concern.
				run.Count("concurrent_generations_refused", 1)
				continue
			}
			views := dkgHolders(c, o.account)
			for _, p := range oracle.CheckDKGViews(views, o.pub, 2, ids) {
				run.Violate(fmt.Sprintf("generation of %s ran concurrently with two others for the same wallet and reported success, but: %s", o.account, p), map[string]any{"account": o.account, "round": round})
			}
			problems, _ := dkgThresholdSign(c, o.account, o.pub, 2, byte(round))
			for _, p := range problems {
				run.Violate(fmt.Sprintf("generation of %s ran concurrently with two others and reported success, but: %s", o.account, p), map[string]any{"account": o.account})
			}
			run.Count("concurrent_generations_succeeded", 1)
		}
		// Accounts of earlier rounds must still be there (a later write of the wallet must not drop them).
		if round > 0 {
			for k := 0; k < 3; k++ {
				prev := fmt.Sprintf("D/conc-%d-%d", round-1, k)
				if h := dkgHolders(c, prev); len(h) != 0 && len(h) != len(ids) {
					run.Violate(fmt.Sprintf("account %s, generated in the previous round, is now held by %d of %d participants", prev, len(h), len(ids)), nil)
				}
			}
		}
	}
	run.Distinct(fmt.Sprintf("concurrent generations into one wallet: succeeded>0=%v", run.Get("concurrent_generations_succeeded") > 0))
	if run.Get("concurrent_generations_succeeded") == 0 {
		run.Inconclusive("no concurrent generation succeeded")
	}
}
