package props

import (
	"fmt"
	"math/rand"
	"runtime"

	"verif/harness/evid"
	"verif/harness/oracle"
	"verif/harness/rig"

	"github.com/attestantio/dirk/core"
	"github.com/attestantio/dirk/rules"
)

var hostileEdge = []uint64{1<<63 - 2, 1<<63 - 1, 1 << 63, 1<<63 + 1, 1<<64 - 2, 1<<64 - 1}

// hostileEpoch draws from the hostile mix of C01/C02.  Profile "dense" keeps a history in the
// small range (so that most requests conflict with earlier ones and many are signed); profile
// "edge" mixes in the values around 2^62, 2^63 and 2^64 and random 64-bit values.
func hostileEpoch(r *rand.Rand, profile string) uint64 {
	p := r.Intn(100)
	if profile == "dense" {
		switch {
		case p < 80:
			return uint64(r.Intn(9))
		case p < 97:
			return uint64(r.Intn(40))
		default:
			return hostileEdge[r.Intn(len(hostileEdge))]
		}
	}
	switch {
	case p < 40:
		return uint64(r.Intn(9))
	case p < 50:
		return uint64(r.Intn(40))
	case p < 75:
		return hostileEdge[r.Intn(len(hostileEdge))]
	case p < 88:
		return 1<<62 + uint64(r.Intn(5))
	default:
		return r.Uint64()
	}
}

// near returns a value within a few steps of base (never wrapping below zero).
func near(r *rand.Rand, base uint64, lo, hi int) uint64 {
	d := lo + r.Intn(hi-lo+1)
	if d < 0 && uint64(-d) > base {
		return 0
	}
	return base + uint64(d)
}

func rel(has bool, v uint64, max uint64) string {
	switch {
	case !has:
		return "none"
	case v < max:
		return "lt"
	case v == max:
		return "eq"
	}
	return "gt"
}

func band(v uint64) string {
	switch {
	case v >= 1<<63:
		return "ge2^63"
	case v >= 1<<62:
		return "ge2^62"
	case v < 64:
		return "small"
	}
	return "mid"
}

type stepRec struct {
	Step    int      `json:"step"`
	Kind    string   `json:"kind"`
	Via     string   `json:"via"`
	Entries []string `json:"entries,omitempty"`
	Results []string `json:"results,omitempty"`
}

func viaName(v Via) string {
	switch v {
	case ViaHandler:
		return "handler"
	case ViaWire:
		return "wire"
	}
	return "service"
}

func addrName(a Addr) string {
	switch a {
	case ByKey:
		return "key"
	case ByLongKey:
		return "longkey"
	}
	return "name"
}

// attributeAtt finds which (key, data) of a batch a signature is valid for.
func attributeAtt(cs []*AttCase, i int, sig []byte) (*AttCase, *AttCase, bool) {
	root := cs[i].SigningRoot()
	if ok, _ := oracle.VerifySig(cs[i].Key.Pub, root[:], sig); ok {
		return cs[i], cs[i], true
	}
	for _, kc := range cs {
		for _, dc := range cs {
			r := dc.SigningRoot()
			if ok, _ := oracle.VerifySig(kc.Key.Pub, r[:], sig); ok {
				return kc, dc, false
			}
		}
	}
	return nil, nil, false
}

// C01 drives seeded hostile histories of attestation requests and feeds every released
// signature to the slashability checker.
func C01(cfg Cfg) int {
	run := evid.New("C01", cfg.Tier, cfg.Seed, "exploration")
	run.Rule = "seeded histories of single/batched attestation requests (by name, by key, duplicate keys in a batch, epochs from a hostile mix incl. >= 2^63, restarts) over fresh keys; " +
		"a case is one request entry; distinct = (prior-state relation of target, of source, path, addressing, epoch band, verdict) classes observed"
	run.Assume = []string{"synthetic in-memory accounts holding real BLS keys stand in for wallet accounts", "hand-written SSZ roots cross-checked against signatures produced by Dirk"}
	slashHistories(run, cfg, "att")
	return run.Finish()
}

// C02 does the same for proposals, and additionally requires strictly increasing slots.
func C02(cfg Cfg) int {
	run := evid.New("C02", cfg.Tier, cfg.Seed, "exploration")
	run.Rule = "seeded histories of proposal requests (by name, by key, slots from a hostile mix incl. >= 2^63, restarts) over fresh keys; " +
		"a case is one request; distinct = (prior-state relation of slot, path, addressing, slot band, verdict) classes observed"
	run.Assume = []string{"synthetic in-memory accounts holding real BLS keys stand in for wallet accounts"}
	slashHistories(run, cfg, "prop")
	return run.Finish()
}

func slashHistories(run *evid.Run, cfg Cfg, kind string) {
	r := cfg.Rand("slash-" + kind)
	env, err := NewEnv(run, cfg, "c01-"+kind, rig.StackOpts{})
	if err != nil {
		run.Inconclusive("cannot build stack: " + err.Error())
		return
	}
	defer env.Stack.Close()
	env.RecordBeforeSign = true
	if sw, err := env.Stack.SyncWrites(); err != nil || !sw {
		run.Violate(fmt.Sprintf("slashing-protection database opened with SyncWrites=%v (%v)", sw, err), nil)
	}
	histories := cfg.N(400, 6000)
	steps := cfg.N(60, 120)
	if kind == "prop" {
		histories = cfg.N(500, 6000)
	}
	slashLoop(run, r, kind, env, histories, steps,
		func() Via {
			if r.Intn(10) == 0 {
				return ViaHandler
			}
			return ViaService
		},
		func() bool { env.FreshKeys(4); return true },
		func() error { return env.Stack.Restart() })
	if kind == "att" {
		slashGiantBatches(run, cfg, env)
	}
	run.Count("pairs_compared", env.Slash.Pairs)
	run.Count("record_before_sign_checks", env.SignChecks())
	if env.SignChecks() == 0 {
		run.Inconclusive("record-before-sign monitor never ran")
	}
	if run.Get("released") == 0 {
		run.Inconclusive("no signature was released")
	}
	slashWire(run, cfg, kind)
}

// slashWire is the wire slice: the same generator and oracle against the real daemon over TLS/gRPC,
// with real restarts (SIGKILL + start) in between.  It notices edits to main.go's wiring.
func slashWire(run *evid.Run, cfg Cfg, kind string) {
	r := cfg.Rand("slash-wire-" + kind)
	histories := cfg.N(8, 100)
	w, err := NewWireRig(cfg, "wire-"+kind, 4*histories, nil)
	if err != nil {
		run.Inconclusive("cannot start daemon for the wire slice: " + err.Error())
		return
	}
	defer w.Close()
	env := NewWireEnv(run, w)
	before := run.Get("released")
	slashLoop(run, r, kind, env, histories, cfg.N(40, 80),
		func() Via { return ViaWire },
		func() bool { return env.WireKeys(4) },
		func() error {
			w.D.Kill()
			if err := w.D.Start(); err != nil {
				return err
			}
			return w.Dial("")
		})
	run.Count("wire_released", run.Get("released")-before)
	run.Count("wire_pairs_compared", env.Slash.Pairs)
	if run.Get("wire_released") == 0 {
		run.Inconclusive("the wire slice released no signature")
	}
	if !w.D.Alive() {
		run.Inconclusive("daemon died during the wire slice: " + w.D.LogTail(400))
	}
}

// procsMix is cycled through by the workloads that send batches: with few scheduler threads one worker handles
// several entries of a batch, with many each entry has its own worker.
var procsMix = []int{16, 1, 2, 16, 3, 5, 16, 1}

func slashLoop(run *evid.Run, r *rand.Rand, kind string, env *Env, histories, steps int, pickVia func() Via, freshKeys func() bool, restart func() error) {
	defer runtime.GOMAXPROCS(runtime.GOMAXPROCS(0))
	roots := [][]byte{Root32(0xaa), Root32(0xbb)}
	doms := map[string][][]byte{
		"att":  {Dom(DomainAttester, 0), Dom(DomainAttester, 7)},
		"prop": {Dom(DomainProposer, 0), Dom(DomainProposer, 9)},
	}[kind]
	for h := 0; h < histories && run.NumViolations() < 5; h++ {
		if !freshKeys() {
			break
		}
		via := pickVia()
		// The number of scheduler threads decides how batches are partitioned over workers.
		runtime.GOMAXPROCS(procsMix[h%len(procsMix)])
		wm := make([]oracle.WM, 4)
		env.wm = wm
		env.profile = "dense"
		if r.Intn(10) < 3 {
			env.profile = "edge"
		}
		restartPct := 0
		if r.Intn(4) == 0 {
			restartPct = 3
		}
		var hist []stepRec
		for s := 0; s < steps; s++ {
			p := r.Intn(100)
			switch {
			case p < restartPct:
				if err := restart(); err != nil {
					run.Inconclusive("restart failed: " + err.Error())
					return
				}
				run.Count("restarts", 1)
				hist = append(hist, stepRec{Step: s, Kind: "restart"})
			case p < restartPct+5:
				// Side channel: the generic endpoints are asked to sign the root of a slashable message under the
				// slashable domain, alone or hidden in a multisign batch among harmless entries.  Whatever signature
				// comes back is attributed by verification and, if it is a valid attestation / proposal signature,
				// joins the released set like any other.
				n := 1 + r.Intn(6)
				gs := make([]*GenCase, n)
				type hidden struct {
					att  *AttCase
					prop *PropCase
				}
				hid := make([]hidden, n)
				rec := stepRec{Step: s, Kind: "generic", Via: viaName(via)}
				for i := range gs {
					ki := r.Intn(len(env.Keys))
					g := &GenCase{Key: env.Keys[ki], Name: env.Names[ki], Addr: RandAddr(r), Data: &rules.SignData{Domain: Dom([]byte{9, 0, 0, 0}, 1), Data: Root32(byte(r.Intn(256)))}}
					if r.Intn(2) == 0 {
						if kind == "att" {
							a := genAtt(r, env, roots, doms, ki)
							root := a.DataRoot()
							g.Data = &rules.SignData{Domain: a.Data.Domain, Data: root[:]}
							g.Addr = a.Addr
							hid[i].att = a
							rec.Entries = append(rec.Entries, "generic over "+descAtt(a))
						} else {
							pc := genProp(r, env, roots, doms)
							root := pc.DataRoot()
							g.Key, g.Name, g.Addr = pc.Key, pc.Name, pc.Addr
							g.Data = &rules.SignData{Domain: pc.Data.Domain, Data: root[:]}
							hid[i].prop = pc
							rec.Entries = append(rec.Entries, "generic over "+descProp(pc))
						}
					} else {
						rec.Entries = append(rec.Entries, fmt.Sprintf("generic harmless key%d", g.Key.Index))
					}
					gs[i] = g
				}
				var res []core.Result
				var sigs [][]byte
				if n == 1 {
					r1, s1 := env.SignGen(via, gs[0])
					res, sigs = []core.Result{r1}, [][]byte{s1}
				} else {
					res, sigs = env.SignGens(via, gs)
				}
				for i := range res {
					rec.Results = append(rec.Results, res[i].String())
					run.Eval(1)
					run.Count("generic_side_channel_entries", 1)
					if i >= len(sigs) || len(sigs[i]) == 0 || i >= n {
						continue
					}
					// Which (key, hidden message) of the batch does the signature verify for?
					for _, kc := range gs {
						for j := range gs {
							if hid[j].att == nil && hid[j].prop == nil {
								continue
							}
							root := gs[j].SigningRoot()
							if ok, _ := oracle.VerifySig(kc.Key.Pub, root[:], sigs[i]); !ok {
								continue
							}
							run.Count("generic_released_slashable_type", 1)
							w := map[string]any{"history_so_far": append(append([]stepRec{}, hist...), rec)}
							if a := hid[j].att; a != nil {
								if why := env.Slash.AddAtt(kc.Key.Pub48(), a.Data.Source.Epoch, a.Data.Target.Epoch, a.DataRoot()); why != "" {
									run.Violate("slashable attestation released through the generic endpoint: "+why, w)
								}
							} else if pc := hid[j].prop; pc != nil {
								if why := env.Slash.AddProp(kc.Key.Pub48(), pc.Data.Slot, pc.DataRoot()); why != "" {
									run.Violate("slashable proposal released through the generic endpoint: "+why, w)
								}
								if wk := &wm[keyIdx(env, kc.Key)]; wk.HasProp && pc.Data.Slot <= wk.MaxSlot {
									run.Violate(fmt.Sprintf("proposal at slot %d signed through the generic endpoint after slot %d", pc.Data.Slot, wk.MaxSlot), w)
								}
							}
						}
					}
				}
				run.Distinct(fmt.Sprintf("generic side channel n=%d via=%s", n, viaName(via)))
				hist = append(hist, rec)
			case kind == "att" && p < 40:
				n := 2 + r.Intn(5)
				cs := make([]*AttCase, n)
				for i := range cs {
					cs[i] = genAtt(r, env, roots, doms, -1)
				}
				if r.Intn(100) < 15 {
					// Same account twice, once by name and once by key.
					i, j := r.Intn(n), r.Intn(n)
					if i != j {
						cs[j].Key, cs[j].Name = cs[i].Key, cs[i].Name
						cs[j].Addr = Addr((int(cs[i].Addr) + 1 + r.Intn(2)) % 3)
					}
				} else {
					// Otherwise distinct keys so that the batch is processed.
					perm := r.Perm(4)
					if n > 4 {
						cs = cs[:4]
						n = 4
					}
					for i := range cs {
						cs[i].Key, cs[i].Name = env.Keys[perm[i]], env.Names[perm[i]]
					}
				}
				res, sigs := env.SignAtts(via, cs)
				rec := stepRec{Step: s, Kind: "atts", Via: viaName(via)}
				if len(res) != len(cs) && !(len(res) == 1 && res[0] != core.ResultSucceeded) {
					run.Violate(fmt.Sprintf("batch of %d returned %d results", len(cs), len(res)), hist)
				}
				for i := range res {
					if i >= len(cs) {
						break
					}
					var sig []byte
					if i < len(sigs) {
						sig = sigs[i]
					}
					rec.Entries = append(rec.Entries, descAtt(cs[i]))
					rec.Results = append(rec.Results, res[i].String())
					judgeAtt(run, env, cs, i, res[i], sig, wm, keyIdx(env, cs[i].Key), "batch", via, hist, &rec)
				}
				hist = append(hist, rec)
			case kind == "att":
				c := genAtt(r, env, roots, doms, -1)
				res, sig := env.SignAtt(via, c)
				rec := stepRec{Step: s, Kind: "att", Via: viaName(via), Entries: []string{descAtt(c)}, Results: []string{res.String()}}
				judgeAtt(run, env, []*AttCase{c}, 0, res, sig, wm, keyIdx(env, c.Key), "single", via, hist, &rec)
				hist = append(hist, rec)
			default:
				c := genProp(r, env, roots, doms)
				res, sig := env.SignProp(via, c)
				rec := stepRec{Step: s, Kind: "prop", Via: viaName(via), Entries: []string{descProp(c)}, Results: []string{res.String()}}
				judgeProp(run, env, c, res, sig, wm, keyIdx(env, c.Key), via, hist, &rec)
				hist = append(hist, rec)
			}
		}
		if h < 2 && env.Wire == nil {
			if len(hist) > 12 {
				hist = hist[:12]
			}
			run.Sample(map[string]any{"history": h, "first_steps": hist})
		}
		run.Count("histories", 1)
	}
}

func keyIdx(env *Env, k *rig.Key) int {
	for i, kk := range env.Keys {
		if kk == k {
			return i
		}
	}
	return 0
}

func descAtt(c *AttCase) string {
	return fmt.Sprintf("key%d/%s %d->%d bbr=%x dom=%x", c.Key.Index, addrName(c.Addr), c.Data.Source.Epoch, c.Data.Target.Epoch, c.Data.BeaconBlockRoot[:1], c.Data.Domain[4:5])
}

func descProp(c *PropCase) string {
	return fmt.Sprintf("key%d/%s slot=%d body=%x dom=%x", c.Key.Index, addrName(c.Addr), c.Data.Slot, c.Data.BodyRoot[:1], c.Data.Domain[4:5])
}

func genAtt(r *rand.Rand, env *Env, roots [][]byte, doms [][]byte, ki int) *AttCase {
	if ki < 0 {
		ki = r.Intn(len(env.Keys))
	}
	src := hostileEpoch(r, env.profile)
	tgt := hostileEpoch(r, env.profile)
	if w := env.wm; w != nil && w[ki].HasAtt && r.Intn(100) < 60 {
		// Stay close to what has been signed for this key: the boundary is where decisions change.
		src = near(r, w[ki].MaxSrc, -2, 2)
		tgt = near(r, w[ki].MaxTgt, -2, 3)
	}
	if r.Intn(3) > 0 && src > tgt {
		src, tgt = tgt, src
	}
	return &AttCase{Key: env.Keys[ki], Name: env.Names[ki], Addr: RandAddr(r),
		Data: &rules.SignBeaconAttestationData{
			Domain: doms[r.Intn(len(doms))], Slot: tgt * 32, CommitteeIndex: uint64(r.Intn(2)),
			BeaconBlockRoot: roots[r.Intn(len(roots))],
			Source:          &rules.Checkpoint{Epoch: src, Root: Root32(1)},
			Target:          &rules.Checkpoint{Epoch: tgt, Root: Root32(2)},
		}}
}

func genProp(r *rand.Rand, env *Env, roots [][]byte, doms [][]byte) *PropCase {
	ki := r.Intn(len(env.Keys))
	slot := hostileEpoch(r, env.profile)
	if w := env.wm; w != nil && w[ki].HasProp && r.Intn(100) < 60 {
		slot = near(r, w[ki].MaxSlot, -2, 3)
	}
	return &PropCase{Key: env.Keys[ki], Name: env.Names[ki], Addr: RandAddr(r),
		Data: &rules.SignBeaconProposalData{Domain: doms[r.Intn(len(doms))], Slot: slot, ProposerIndex: uint64(r.Intn(2)),
			ParentRoot: Root32(3), StateRoot: Root32(4), BodyRoot: roots[r.Intn(len(roots))]}}
}

func judgeAtt(run *evid.Run, env *Env, cs []*AttCase, i int, res core.Result, sig []byte, wm []oracle.WM, ki int, path string, via Via, hist []stepRec, rec *stepRec) {
	c := cs[i]
	run.Eval(1)
	w := &wm[ki]
	cls := fmt.Sprintf("tgt:%s src:%s %s/%s/%s band:%s/%s -> %s", rel(w.HasAtt, c.Data.Target.Epoch, w.MaxTgt), rel(w.HasAtt, c.Data.Source.Epoch, w.MaxSrc),
		path, viaName(via), addrName(c.Addr), band(c.Data.Source.Epoch), band(c.Data.Target.Epoch), res)
	run.Distinct(cls)
	witness := func() any { return map[string]any{"history_so_far": append(append([]stepRec{}, hist...), *rec)} }
	if res != core.ResultSucceeded {
		run.Count("refused", 1)
		if len(sig) > 0 {
			run.Violate("signature returned with state "+res.String(), witness())
		}
		return
	}
	if len(sig) == 0 {
		run.Violate("SUCCEEDED without signature", witness())
		return
	}
	kc, dc, aligned := attributeAtt(cs, i, sig)
	if kc == nil {
		run.Violate("released signature verifies for no (key, data) of the request: "+descAtt(c), witness())
		return
	}
	if !aligned {
		run.Count("misattributed_signatures", 1)
	}
	run.Count("released", 1)
	if why := env.Slash.AddAtt(kc.Key.Pub48(), dc.Data.Source.Epoch, dc.Data.Target.Epoch, dc.DataRoot()); why != "" {
		run.Violate("slashable attestation released: "+why, witness())
	}
	if w.HasAtt && (c.Data.Target.Epoch <= w.MaxTgt || c.Data.Source.Epoch < w.MaxSrc) {
		run.Count("released_not_monotonic", 1)
	}
	w.SignedAtt(c.Data.Source.Epoch, c.Data.Target.Epoch)
}

func judgeProp(run *evid.Run, env *Env, c *PropCase, res core.Result, sig []byte, wm []oracle.WM, ki int, via Via, hist []stepRec, rec *stepRec) {
	run.Eval(1)
	w := &wm[ki]
	cls := fmt.Sprintf("slot:%s single/%s/%s band:%s -> %s", rel(w.HasProp, c.Data.Slot, w.MaxSlot), viaName(via), addrName(c.Addr), band(c.Data.Slot), res)
	run.Distinct(cls)
	witness := func() any { return map[string]any{"history_so_far": append(append([]stepRec{}, hist...), *rec)} }
	if res != core.ResultSucceeded {
		run.Count("refused", 1)
		if len(sig) > 0 {
			run.Violate("signature returned with state "+res.String(), witness())
		}
		return
	}
	if len(sig) == 0 {
		run.Violate("SUCCEEDED without signature", witness())
		return
	}
	root := c.SigningRoot()
	if ok, _ := oracle.VerifySig(c.Key.Pub, root[:], sig); !ok {
		run.Violate("released signature does not verify for the requested key and data: "+descProp(c), witness())
		return
	}
	run.Count("released", 1)
	if why := env.Slash.AddProp(c.Key.Pub48(), c.Data.Slot, c.DataRoot()); why != "" {
		run.Violate("slashable proposal released: "+why, witness())
	}
	if w.HasProp && c.Data.Slot <= w.MaxSlot {
		run.Violate(fmt.Sprintf("proposal slots not strictly increasing for key%d: signed slot %d after slot %d", c.Key.Index, c.Data.Slot, w.MaxSlot), witness())
	}
	w.SignedProp(c.Data.Slot)
}

// slashGiantBatches sends attestation batches beyond a thousand entries (an operator with that many validators
// sends them every epoch): an advancing batch, then the same targets with another root in the same process, then
// again after a restart.  Every release goes to the slashability oracle and through the record-before-sign monitor.
func slashGiantBatches(run *evid.Run, cfg Cfg, env *Env) {
	sizes := []int{1025, 2049}
	if cfg.Thorough() {
		sizes = []int{1023, 1024, 1025, 1500, 2048, 2049, 3100}
	}
	for si, n := range sizes {
		env.FreshKeys(n)
		epoch := uint64(50 + si)
		mk := func(root byte, byKey bool) []*AttCase {
			cs := make([]*AttCase, n)
			for i := range cs {
				cs[i] = &AttCase{Key: env.Keys[i], Name: env.Names[i], Addr: ByName, Data: &rules.SignBeaconAttestationData{
					Domain: Dom(DomainAttester, 0), Slot: epoch * 32, CommitteeIndex: uint64(i % 64), BeaconBlockRoot: Root32(root),
					Source: &rules.Checkpoint{Epoch: epoch - 1, Root: Root32(1)}, Target: &rules.Checkpoint{Epoch: epoch, Root: Root32(2)}}}
				if byKey {
					cs[i].Addr = ByKey
				}
			}
			return cs
		}
		round := func(label string, root byte, byKey, mustSign bool) {
			cs := mk(root, byKey)
			res, sigs := env.SignAtts(ViaService, cs)
			signed := 0
			for i := range cs {
				run.Eval(1)
				if i >= len(res) || res[i] != core.ResultSucceeded || i >= len(sigs) || len(sigs[i]) == 0 {
					continue
				}
				sr := cs[i].SigningRoot()
				if ok, _ := oracle.VerifySig(cs[i].Key.Pub, sr[:], sigs[i]); !ok {
					run.Violate(fmt.Sprintf("giant batch n=%d %s: signature at position %d does not verify for its entry", n, label, i), nil)
					continue
				}
				signed++
				if why := env.Slash.AddAtt(cs[i].Key.Pub48(), epoch-1, epoch, cs[i].DataRoot()); why != "" {
					run.Violate(fmt.Sprintf("giant batch n=%d %s position %d: slashable attestation released: %s", n, label, i, why), nil)
				}
			}
			run.Count("giant_batch_entries", n)
			run.Count("giant_batch_released", signed)
			run.Distinct(fmt.Sprintf("giant batch n=%d %s signed=%d", n, label, signed))
			if mustSign && signed != n {
				run.Violate(fmt.Sprintf("giant batch n=%d %s: only %d of %d advancing attestations for distinct fresh keys were signed", n, label, signed, n), nil)
			}
		}
		round("advancing", 0xaa, si%2 == 1, true)
		round("conflicting, same process", 0xbb, si%2 == 0, false)
		if err := env.Stack.Restart(); err != nil {
			run.Inconclusive("restart failed: " + err.Error())
			return
		}
		round("conflicting, after restart", 0xcc, false, false)
		if run.NumViolations() >= 5 {
			return
		}
	}
}
