package props

import (
	"context"
	"encoding/json"
	"fmt"
	"math/rand"
	"os"
	"path/filepath"
	"strings"

	"verif/harness/evid"
	"verif/harness/rig"

	"github.com/attestantio/dirk/rules"
	"github.com/attestantio/dirk/util/verifhook"
)

const gvr = "0x04700007fabc8282644aed6d1c7c9e21d38a03a0c4ba193f3afe428824b3a673"

type icBlock struct {
	Slot string `json:"slot"`
}
type icAtt struct {
	Source string `json:"source_epoch"`
	Target string `json:"target_epoch"`
}
type icData struct {
	Pubkey string    `json:"pubkey"`
	Blocks []icBlock `json:"signed_blocks,omitempty"`
	Atts   []icAtt   `json:"signed_attestations,omitempty"`
}
type icFile struct {
	Metadata map[string]string `json:"metadata"`
	Data     []icData          `json:"data"`
}

// trip is (slot, source, target), -1 = nothing.
type trip struct{ Slot, Src, Tgt int64 }

func maxi(a, b int64) int64 {
	if a > b {
		return a
	}
	return b
}

func exportTrips(svc rules.Service) (map[[48]byte]trip, error) {
	exp, err := svc.ExportSlashingProtection(context.Background())
	if err != nil {
		return nil, err
	}
	res := map[[48]byte]trip{}
	for k, v := range exp {
		res[k] = trip{v.HighestProposedSlot, v.HighestAttestedSourceEpoch, v.HighestAttestedTargetEpoch}
	}
	return res, nil
}

func meta(pub []byte) *rules.ReqMetadata {
	return &rules.ReqMetadata{Account: "a", PubKey: pub, IP: "10.0.0.1", Client: "client1"}
}

func ruleAtt(svc rules.Service, pub []byte, src, tgt uint64) rules.Result {
	return svc.OnSignBeaconAttestation(context.Background(), meta(pub), &rules.SignBeaconAttestationData{Domain: Dom(DomainAttester, 0), Slot: tgt * 32,
		BeaconBlockRoot: Root32(9), Source: &rules.Checkpoint{Epoch: src, Root: Root32(1)}, Target: &rules.Checkpoint{Epoch: tgt, Root: Root32(2)}})
}

// spell writes a number the way other tools might: the interchange format carries decimal strings, and a decimal
// string may have leading zeros or an explicit plus sign and still denote the same number.
func spell(r *rand.Rand, v int64) string {
	if v < 0 {
		return fmt.Sprint(v)
	}
	switch r.Intn(8) {
	case 0:
		return strings.Repeat("0", 1+r.Intn(5)) + fmt.Sprint(v)
	case 1:
		return "+" + fmt.Sprint(v)
	}
	return fmt.Sprint(v)
}

// ruleAtts asks the batch rule about one attestation per key.
func ruleAtts(svc rules.Service, pubs [][]byte, srcs, tgts []uint64) []rules.Result {
	ms := make([]*rules.ReqMetadata, len(pubs))
	ds := make([]*rules.SignBeaconAttestationData, len(pubs))
	for i := range pubs {
		ms[i] = meta(pubs[i])
		ds[i] = &rules.SignBeaconAttestationData{Domain: Dom(DomainAttester, 0), Slot: tgts[i] * 32, BeaconBlockRoot: Root32(9),
			Source: &rules.Checkpoint{Epoch: srcs[i], Root: Root32(1)}, Target: &rules.Checkpoint{Epoch: tgts[i], Root: Root32(2)}}
	}
	return svc.OnSignBeaconAttestations(context.Background(), ms, ds)
}

func ruleProp(svc rules.Service, pub []byte, slot uint64) rules.Result {
	return svc.OnSignBeaconProposal(context.Background(), meta(pub), &rules.SignBeaconProposalData{Domain: Dom(DomainProposer, 0), Slot: slot,
		ParentRoot: Root32(3), StateRoot: Root32(4), BodyRoot: Root32(9)})
}

func relOf(v, db int64) string {
	switch {
	case db < 0:
		return "fresh"
	case v < db:
		return "older"
	case v == db:
		return "equal"
	}
	return "newer"
}

// C10 drives the real command-line import against generated prior databases and interchange files.
func C10(cfg Cfg) int {
	run := evid.New("C10", cfg.Tier, cfg.Seed, "exploration")
	run.Rule = "sequences of 1-4 runs of the real executable (dirk --import-slashing-protection) against a database holding real prior signings; files from a generator: 1-5 keys, repeated keys, any mix of block/attestation entries, values older/equal/newer than the database per field, malformed numbers and keys, wrong interchange version, wrong or missing genesis root; " +
		"after each run the database is opened and (i) no field may be lower than before, (ii) on exit 0 every field covers the maxima of the file and the earlier history and boundary requests (proposal at the max slot, attestation at the max target, attestation with source one below the max source) are refused, (iii) wrong metadata gives a non-zero exit and an unchanged database; " +
		"distinct = (slot relation, source relation, target relation, entries-per-key shape, exit code) classes"
	run.Assume = []string{"decisions are probed at the rules.Service boundary of the real rules package opened on the same directory"}
	r := cfg.Rand("c10")
	seqs := cfg.N(100, 5000)
	for s := 0; s < seqs && run.NumViolations() < 5; s++ {
		base := filepath.Join(cfg.Work, fmt.Sprintf("b%d", s%8))
		_ = os.RemoveAll(base)
		if err := rig.NewBaseDir(base); err != nil {
			run.Inconclusive(err.Error())
			break
		}
		keys := rig.DetKeys(fmt.Sprintf("c10-%d", s), 4)
		if s%2 == 1 {
			// A key no BLS library would produce (leading zero nibbles/bytes): files may carry any key bytes.
			keys[3] = rig.OpaqueKey(fmt.Sprintf("c10-%d", s), [][]byte{{0x00}, {0x0a}, {0x00, 0x00, 0x07}, {0x01}, {0x00, 0x30}}[(s/2)%5]...)
			run.Distinct(fmt.Sprintf("opaque key prefix %x", keys[3].Pub[:2]))
		}
		mx := map[[48]byte]trip{}
		// Prior history by real signing decisions.
		svc, err := rig.OpenRules(base)
		if err != nil {
			run.Inconclusive(err.Error())
			break
		}
		for _, k := range keys {
			t := trip{-1, -1, -1}
			if r.Intn(3) > 0 {
				src := uint64(r.Intn(50))
				tgt := src + 1 + uint64(r.Intn(20))
				if ruleAtt(svc, k.Pub, src, tgt) == rules.APPROVED {
					t.Src, t.Tgt = int64(src), int64(tgt)
				}
			}
			if r.Intn(3) > 0 {
				slot := uint64(r.Intn(2000))
				if ruleProp(svc, k.Pub, slot) == rules.APPROVED {
					t.Slot = int64(slot)
				}
			}
			if t != (trip{-1, -1, -1}) {
				mx[k.Pub48()] = t
			}
		}
		prev, _ := exportTrips(svc)
		_ = svc.Close(context.Background())
		var history []any
		for run1 := 0; run1 < 1+r.Intn(4); run1++ {
			file, kind, fileMax, shapes := c10GenFile(r, keys, prev)
			path := filepath.Join(base, "import.json")
			data, _ := json.Marshal(file)
			if kind == "not-json" {
				data = []byte("{\"metadata\": ")
			}
			_ = os.WriteFile(path, data, 0o644)
			flagRoot := gvr
			if kind == "flag-root-differs" {
				flagRoot = "0x" + strings.Repeat("11", 32)
			}
			_, stderr, code := rig.RunDirk(base, "--import-slashing-protection", "--genesis-validators-root", flagRoot, "--slashing-protection-file", path)
			run.Eval(1)
			run.Count(fmt.Sprintf("exit_%d", code), 1)
			history = append(history, map[string]any{"file": file, "kind": kind, "exit": code, "stderr": strings.TrimSpace(stderr)})
			svc, err := rig.OpenRules(base)
			if err != nil {
				run.Violate("database cannot be opened after an import run: "+err.Error(), history)
				break
			}
			now, err := exportTrips(svc)
			if err != nil {
				run.Violate("database cannot be exported after an import run: "+err.Error(), history)
				_ = svc.Close(context.Background())
				break
			}
			witness := map[string]any{"runs": history, "before": fmtTrips(prev), "after": fmtTrips(now)}
			// (i) never lowers, whatever the exit code.
			for k, p := range prev {
				n, ok := now[k]
				if !ok {
					n = trip{-1, -1, -1}
				}
				if n.Slot < p.Slot || n.Src < p.Src || n.Tgt < p.Tgt {
					run.Violate(fmt.Sprintf("import run (exit %d, %s) lowered the record of key %x from %+v to %+v", code, kind, k[:6], p, n), witness)
				}
			}
			wrongMeta := kind == "wrong-version" || kind == "wrong-root" || kind == "missing-root" || kind == "flag-root-differs" || kind == "no-metadata"
			if wrongMeta {
				if code == 0 {
					run.Violate("file with wrong interchange metadata ("+kind+") was accepted (exit 0)", witness)
				}
				if !sameTrips(prev, now) {
					run.Violate("file with wrong interchange metadata ("+kind+") changed the database", witness)
				}
				run.Distinct("metadata " + kind + fmt.Sprintf(" exit=%d", code))
			}
			if code == 0 {
				// (ii) the file's values and the earlier history are covered, and the boundary requests are refused.
				for k, fm := range fileMax {
					m := mx[k]
					if _, ok := mx[k]; !ok {
						m = trip{-1, -1, -1}
					}
					m = trip{maxi(m.Slot, fm.Slot), maxi(m.Src, fm.Src), maxi(m.Tgt, fm.Tgt)}
					mx[k] = m
				}
				for k, m := range mx {
					n, ok := now[k]
					if !ok {
						n = trip{-1, -1, -1}
					}
					if n.Slot < m.Slot || n.Src < m.Src || n.Tgt < m.Tgt {
						run.Violate(fmt.Sprintf("import reported success but key %x holds %+v, below the maxima %+v of the file and the earlier history", k[:6], n, m), witness)
						continue
					}
					if m.Slot >= 0 {
						if v := ruleProp(svc, k[:], uint64(m.Slot)); v == rules.APPROVED {
							run.Violate(fmt.Sprintf("after a successful import a proposal at slot %d (at the maximum known for key %x) was approved", m.Slot, k[:6]), witness)
						}
						run.Count("boundary_probes", 1)
					}
					if m.Tgt >= 0 {
						src := uint64(0)
						if m.Src > 0 {
							src = uint64(m.Src)
						}
						if v := ruleAtt(svc, k[:], src, uint64(m.Tgt)); v == rules.APPROVED && uint64(m.Tgt) > src {
							run.Violate(fmt.Sprintf("after a successful import an attestation at target %d (the maximum known for key %x) was approved", m.Tgt, k[:6]), witness)
						}
						if m.Src > 0 {
							if v := ruleAtt(svc, k[:], uint64(m.Src-1), uint64(m.Tgt+1)); v == rules.APPROVED {
								run.Violate(fmt.Sprintf("after a successful import an attestation with source %d (below the maximum source %d known for key %x) was approved", m.Src-1, m.Src, k[:6]), witness)
							}
						}
						run.Count("boundary_probes", 2)
					}
				}
				for s := range shapes {
					run.Distinct(s + " exit=0")
				}
			} else {
				for s := range shapes {
					run.Distinct(s + fmt.Sprintf(" kind=%s exit=%d", kind, code))
				}
			}
			now2, _ := exportTrips(svc)
			prev = now2
			_ = svc.Close(context.Background())
			if s == 0 && run1 == 0 {
				run.Sample(map[string]any{"file": file, "kind": kind, "exit": code, "database_before": witness["before"], "database_after": witness["after"]})
			}
		}
	}
	c10Faults(run, cfg)
	if run.Get("exit_0") == 0 || run.Get("boundary_probes") == 0 {
		run.Inconclusive("no successful import was observed")
	}
	return run.Finish()
}

func fmtTrips(m map[[48]byte]trip) map[string]trip {
	out := map[string]trip{}
	for k, v := range m {
		out[fmt.Sprintf("%x", k[:6])] = v
	}
	return out
}

func sameTrips(a, b map[[48]byte]trip) bool {
	none := trip{-1, -1, -1}
	for k, v := range a {
		w, ok := b[k]
		if !ok {
			w = none
		}
		if v != w {
			return false
		}
	}
	for k, v := range b {
		w, ok := a[k]
		if !ok {
			w = none
		}
		if v != w {
			return false
		}
	}
	return true
}

// c10GenFile generates an interchange file relative to the database contents.
func c10GenFile(r *rand.Rand, keys []*rig.Key, db map[[48]byte]trip) (*icFile, string, map[[48]byte]trip, map[string]bool) {
	f := &icFile{Metadata: map[string]string{"interchange_format_version": "5", "genesis_validators_root": gvr}}
	kind := "well-formed"
	switch r.Intn(30) {
	case 0:
		// Only versions that are unmistakably different ones (older and newer), never another spelling of 5.
		f.Metadata["interchange_format_version"], kind = []string{"4", "6", "50", "3", "51", "15"}[r.Intn(6)], "wrong-version"
	case 1:
		f.Metadata["genesis_validators_root"], kind = "0x"+strings.Repeat("22", 32), "wrong-root"
	case 2:
		delete(f.Metadata, "genesis_validators_root")
		kind = "missing-root"
	case 3:
		kind = "flag-root-differs"
	case 4:
		f.Metadata, kind = nil, "no-metadata"
	}
	fileMax := map[[48]byte]trip{}
	shapes := map[string]bool{}
	near := func(v int64) int64 {
		switch r.Intn(5) {
		case 0:
			return v
		case 1:
			if v > 0 {
				return v - 1 - int64(r.Intn(int(v)))
			}
			return 0
		case 2:
			return v + 1 + int64(r.Intn(5))
		case 3:
			return v + 1000 + int64(r.Intn(100000))
		}
		return int64(r.Intn(60))
	}
	nEntries := 1 + r.Intn(5)
	for e := 0; e < nEntries; e++ {
		k := keys[r.Intn(len(keys))] // repeated keys happen naturally
		d := icData{Pubkey: fmt.Sprintf("%#x", k.Pub)}
		cur, inDB := db[k.Pub48()]
		if !inDB {
			cur = trip{-1, -1, -1}
		}
		fm, seen := fileMax[k.Pub48()]
		if !seen {
			fm = trip{-1, -1, -1}
		}
		nb, na := r.Intn(3), r.Intn(3)
		if nb+na == 0 {
			na = 1
		}
		for i := 0; i < nb; i++ {
			v := near(maxi(cur.Slot, 0))
			d.Blocks = append(d.Blocks, icBlock{Slot: spell(r, v)})
			fm.Slot = maxi(fm.Slot, v)
			shapes["slot:"+relOf(v, cur.Slot)] = true
		}
		for i := 0; i < na; i++ {
			sv, tv := near(maxi(cur.Src, 0)), near(maxi(cur.Tgt, 0))
			d.Atts = append(d.Atts, icAtt{Source: spell(r, sv), Target: spell(r, tv)})
			fm.Src, fm.Tgt = maxi(fm.Src, sv), maxi(fm.Tgt, tv)
			shapes[fmt.Sprintf("src:%s tgt:%s", relOf(sv, cur.Src), relOf(tv, cur.Tgt))] = true
		}
		shapes[fmt.Sprintf("entry blocks=%d atts=%d dbhas(slot=%v,att=%v) repeat=%v", nb, na, cur.Slot >= 0, cur.Tgt >= 0, seen)] = true
		fileMax[k.Pub48()] = fm
		f.Data = append(f.Data, d)
	}
	if kind == "well-formed" {
		switch r.Intn(30) {
		case 0:
			kind = "negative-number"
			d := &f.Data[r.Intn(len(f.Data))]
			if len(d.Atts) > 0 {
				d.Atts[0].Source = "-5"
			} else {
				d.Blocks[0].Slot = "-1"
			}
		case 1:
			kind = "number-too-large"
			d := &f.Data[r.Intn(len(f.Data))]
			if len(d.Atts) > 0 {
				d.Atts[len(d.Atts)-1].Target = "9223372036854775808"
			} else {
				d.Blocks[0].Slot = "18446744073709551615"
			}
		case 2:
			kind = "non-numeric"
			d := &f.Data[r.Intn(len(f.Data))]
			if len(d.Blocks) > 0 {
				d.Blocks[0].Slot = "12a"
			} else {
				d.Atts[0].Target = ""
			}
		case 3:
			kind = "bad-key-hex"
			f.Data[r.Intn(len(f.Data))].Pubkey = "0xzz" + strings.Repeat("00", 46)
		case 4:
			kind = "not-json"
		}
	}
	if kind != "well-formed" {
		// A rejected file obliges nothing; an accepted malformed one is only judged by "never lowers".
		if kind == "negative-number" || kind == "number-too-large" || kind == "non-numeric" || kind == "bad-key-hex" || kind == "not-json" {
			fileMax = map[[48]byte]trip{}
		}
	}
	return f, kind, fileMax, shapes
}

// c10Faults: storage faults during an import (in-process, through the verif hook).  Whatever fails, an import
// that REPORTS success must have recorded everything it was given, and no import may lower a record.
func c10Faults(run *evid.Run, cfg Cfg) {
	r := cfg.Rand("c10-faults")
	base := filepath.Join(cfg.Work, "faults")
	_ = os.RemoveAll(base)
	_ = rig.NewBaseDir(base)
	svc, err := rig.OpenRules(base)
	if err != nil {
		run.Inconclusive(err.Error())
		return
	}
	defer svc.Close(context.Background())
	defer verifhook.Set(nil)
	for k := 0; k < cfg.N(150, 3000) && run.NumViolations() < 5; k++ {
		keys := rig.DetKeys(fmt.Sprintf("c10f-%d", k), 3)
		// Some prior state.
		for _, key := range keys {
			if r.Intn(2) == 0 {
				ruleAtt(svc, key.Pub, uint64(r.Intn(20)), uint64(20+r.Intn(20)))
			}
			if r.Intn(2) == 0 {
				ruleProp(svc, key.Pub, uint64(r.Intn(500)))
			}
		}
		prev, _ := exportTrips(svc)
		prot := map[[48]byte]*rules.SlashingProtection{}
		for _, key := range keys[:1+r.Intn(3)] {
			p := &rules.SlashingProtection{PubKey: key.Pub, HighestProposedSlot: -1, HighestAttestedSourceEpoch: -1, HighestAttestedTargetEpoch: -1}
			cur := prev[key.Pub48()]
			if r.Intn(4) > 0 {
				p.HighestProposedSlot = maxi(cur.Slot, 0) + int64(r.Intn(1000))
			}
			if r.Intn(4) > 0 {
				p.HighestAttestedSourceEpoch = maxi(cur.Src, 0) + int64(r.Intn(50))
				p.HighestAttestedTargetEpoch = maxi(cur.Tgt, 0) + int64(r.Intn(50))
			}
			prot[key.Pub48()] = p
		}
		failAt, hits := 1+r.Intn(5), 0
		fired := false
		verifhook.Set(func(name string, _ [][]byte) error {
			if name == "store.Store.pre" || name == "store.BatchStore.pre" {
				hits++
				if hits == failAt {
					fired = true
					return errInjected
				}
			}
			return nil
		})
		ierr := svc.ImportSlashingProtection(context.Background(), prot)
		verifhook.Set(nil)
		now, _ := exportTrips(svc)
		run.Eval(1)
		run.Distinct(fmt.Sprintf("import fault at write %d fired=%v records=%d reported-ok=%v", failAt, fired, len(prot), ierr == nil))
		witness := map[string]any{"fault_at_write": failAt, "fault_fired": fired, "import_error": fmt.Sprint(ierr), "before": fmtTrips(prev), "after": fmtTrips(now)}
		for key, p := range prev {
			n := now[key]
			if n.Slot < p.Slot || n.Src < p.Src || n.Tgt < p.Tgt {
				run.Violate(fmt.Sprintf("an import with a storage fault lowered the record of key %x from %+v to %+v", key[:6], p, n), witness)
			}
		}
		if fired {
			run.Count("import_faults_fired", 1)
		}
		if ierr == nil {
			run.Count("imports_reported_ok_under_fault_schedule", 1)
			for key, p := range prot {
				n, ok := now[key]
				if !ok {
					n = trip{-1, -1, -1}
				}
				if n.Slot < p.HighestProposedSlot || n.Src < p.HighestAttestedSourceEpoch || n.Tgt < p.HighestAttestedTargetEpoch {
					run.Violate(fmt.Sprintf("the import reported success although a write failed, and key %x holds %+v instead of slot %d / source %d / target %d", key[:6], n, p.HighestProposedSlot, p.HighestAttestedSourceEpoch, p.HighestAttestedTargetEpoch), witness)
				}
			}
		}
	}
	if run.Get("import_faults_fired") == 0 {
		run.Inconclusive("no import fault fired")
	}
}
