package props

import (
	"context"
	"errors"
	"fmt"
	"math/rand"
	"os"
	"path/filepath"
	"runtime"
	"strconv"
	"strings"
	"sync"
	"sync/atomic"
	"syscall"
	"time"

	"verif/harness/evid"
	"verif/harness/oracle"
	"verif/harness/rig"

	"github.com/attestantio/dirk/core"
	"github.com/attestantio/dirk/rules"
	signerhandler "github.com/attestantio/dirk/services/api/grpc/handlers/signer"
	"github.com/attestantio/dirk/services/checker"
	"github.com/attestantio/dirk/services/ruler"
	"github.com/attestantio/dirk/services/signer"
	"github.com/attestantio/dirk/services/unlocker"
	"github.com/attestantio/dirk/util/verifhook"
	badger "github.com/dgraph-io/badger/v2"
	pb "github.com/wealdtech/eth2-signer-api/pb/v1"
	e2wtypes "github.com/wealdtech/go-eth2-wallet-types/v2"
)

// faultCtl is consulted by every interposer: which faults are active, aimed at which key.
type faultCtl struct {
	mu     sync.Mutex
	active map[string][48]byte // fault name -> target public key
	names  map[string]string   // fault name -> target account name
	fired  map[string]int
}

func (c *faultCtl) set(faults map[string][48]byte, names map[string]string) {
	c.mu.Lock()
	c.active, c.names, c.fired = faults, names, map[string]int{}
	c.mu.Unlock()
}

// hit reports whether the fault is active for this key, and records that it fired.
func (c *faultCtl) hit(name string, pub []byte) bool {
	c.mu.Lock()
	defer c.mu.Unlock()
	t, ok := c.active[name]
	if !ok || len(pub) < 48 || string(t[:]) != string(pub[:48]) {
		return false
	}
	c.fired[name]++
	return true
}

func (c *faultCtl) hitName(name string, account string) bool {
	c.mu.Lock()
	defer c.mu.Unlock()
	if _, ok := c.active[name]; !ok || c.names[name] != account {
		return false
	}
	c.fired[name]++
	return true
}

func (c *faultCtl) on(name string) bool {
	c.mu.Lock()
	defer c.mu.Unlock()
	_, ok := c.active[name]
	return ok
}

func (c *faultCtl) firedCount(name string) int {
	c.mu.Lock()
	defer c.mu.Unlock()
	return c.fired[name]
}

var errInjected = errors.New("injected fault")

type faultChecker struct {
	checker.Service
	inner checker.Service
	ctl   *faultCtl
}

func (f *faultChecker) Check(ctx context.Context, creds *checker.Credentials, account string, operation string) bool {
	if f.ctl.hitName("checker-deny", account) {
		return false
	}
	return f.inner.Check(ctx, creds, account, operation)
}

type faultUnlocker struct {
	unlocker.Service
	inner unlocker.Service
	ctl   *faultCtl
}

func (f *faultUnlocker) UnlockWallet(ctx context.Context, w e2wtypes.Wallet) (bool, error) {
	return f.inner.UnlockWallet(ctx, w)
}

func (f *faultUnlocker) UnlockAccount(ctx context.Context, w e2wtypes.Wallet, a e2wtypes.Account) (bool, error) {
	pub := a.PublicKey().Marshal()
	if f.ctl.hit("unlocker-error", pub) {
		return false, errInjected
	}
	if f.ctl.hit("unlocker-false", pub) {
		return false, nil
	}
	return f.inner.UnlockAccount(ctx, w, a)
}

var ruleFaults = map[string]rules.Result{"FAILED": rules.FAILED, "UNKNOWN": rules.UNKNOWN, "DENIED": rules.DENIED}

type faultRules struct {
	rules.Service
	ctl *faultCtl
}

func (f *faultRules) override(pub []byte, res rules.Result) rules.Result {
	for n, v := range ruleFaults {
		if f.ctl.hit("rules-"+n, pub) {
			return v
		}
	}
	return res
}

func (f *faultRules) OnSign(ctx context.Context, m *rules.ReqMetadata, r *rules.SignData) rules.Result {
	return f.override(m.PubKey, f.Service.OnSign(ctx, m, r))
}

func (f *faultRules) OnSignBeaconAttestation(ctx context.Context, m *rules.ReqMetadata, r *rules.SignBeaconAttestationData) rules.Result {
	return f.override(m.PubKey, f.Service.OnSignBeaconAttestation(ctx, m, r))
}

func (f *faultRules) OnSignBeaconProposal(ctx context.Context, m *rules.ReqMetadata, r *rules.SignBeaconProposalData) rules.Result {
	return f.override(m.PubKey, f.Service.OnSignBeaconProposal(ctx, m, r))
}

func (f *faultRules) OnSignBeaconAttestations(ctx context.Context, m []*rules.ReqMetadata, r []*rules.SignBeaconAttestationData) []rules.Result {
	res := f.Service.OnSignBeaconAttestations(ctx, m, r)
	for i := range res {
		if i < len(m) && m[i] != nil {
			res[i] = f.override(m[i].PubKey, res[i])
		}
	}
	if len(m) > 1 && m[len(m)-1] != nil && f.ctl.hit("rules-short", m[len(m)-1].PubKey) {
		res = res[:len(res)-1]
	}
	return res
}

type faultRuler struct {
	ruler.Service
	inner ruler.Service
	ctl   *faultCtl
}

func (f *faultRuler) RunRules(ctx context.Context, creds *checker.Credentials, action string, data []*ruler.RulesData) []rules.Result {
	res := f.inner.RunRules(ctx, creds, action, data)
	if action != ruler.ActionSign && action != ruler.ActionSignBeaconAttestation && action != ruler.ActionSignBeaconProposal {
		return res
	}
	for i := range res {
		if i < len(data) && data[i] != nil {
			for n, v := range ruleFaults {
				if f.ctl.hit("ruler-"+n, data[i].PubKey) {
					res[i] = v
				}
			}
		}
	}
	// For a single request the short list is the empty one (the signer then has no verdict at all for it).
	if n := len(data); n >= 1 && len(res) == n && data[n-1] != nil && f.ctl.hit("ruler-short", data[n-1].PubKey) {
		res = res[:n-1]
	}
	return res
}

// c06Faults lists every single fault; "pos" faults aim at one batch position, "last" faults at the last one.
var c06Faults = []string{
	"fetch-error", "checker-deny", "locked-unknown-passphrase", "unlocker-error", "unlocker-false", "isunlocked-error",
	"rules-FAILED", "rules-UNKNOWN", "rules-DENIED", "rules-short", "ruler-FAILED", "ruler-UNKNOWN", "ruler-DENIED", "ruler-short",
	"store-fetch-error", "store-store-error", "store-batchstore-error", "store-batchstore-panic",
	"record-v1-length", "record-bad-version", "record-empty",
	"hash-domain-length", "hash-data-length", "sign-error",
}

type c06Env struct {
	*Env
	ctl *faultCtl
	run *evid.Run
}

func newC06Env(run *evid.Run, cfg Cfg, name string) (*c06Env, error) {
	ctl := &faultCtl{}
	ctl.set(nil, nil)
	env, err := NewEnv(run, cfg, name, rig.StackOpts{
		WrapChecker:  func(c checker.Service) checker.Service { return &faultChecker{Service: c, inner: c, ctl: ctl} },
		WrapUnlocker: func(u unlocker.Service) unlocker.Service { return &faultUnlocker{Service: u, inner: u, ctl: ctl} },
		WrapRules:    func(r rules.Service) rules.Service { return &faultRules{Service: r, ctl: ctl} },
		WrapRuler:    func(r ruler.Service) ruler.Service { return &faultRuler{Service: r, inner: r, ctl: ctl} },
	})
	if err != nil {
		return nil, err
	}
	env.Probes.Fetch = func(kind string, arg []byte) error {
		switch kind {
		case "account":
			if ctl.hitName("fetch-error", string(arg)) {
				return errInjected
			}
		case "accountbykey":
			if ctl.hit("fetch-error", arg) {
				return errInjected
			}
		}
		return nil
	}
	env.Probes.IsUnlocked = func(pub [48]byte) (bool, bool, error) {
		if ctl.hit("isunlocked-error", pub[:]) {
			return true, false, errInjected
		}
		return false, false, nil
	}
	inner := env.Probes.BeforeSign
	env.Probes.BeforeSign = func(pub [48]byte, root []byte) error {
		if ctl.hit("sign-error", pub[:]) {
			return errInjected
		}
		return inner(pub, root)
	}
	verifhook.Set(func(name string, keys [][]byte) error {
		var f string
		switch name {
		case "store.Fetch.pre":
			f = "store-fetch-error"
		case "store.Store.pre":
			f = "store-store-error"
		case "store.BatchStore.pre":
			f = "store-batchstore-error"
		default:
			return nil
		}
		for _, k := range keys {
			if ctl.hit(f, k) {
				return errInjected
			}
			if name == "store.BatchStore.pre" && ctl.hit("store-batchstore-panic", k) {
				// The batch path runs in the goroutine that serves the request (where the server's recovery interceptor
				// answers a panic with an error); nothing of the batch may come back signed.
				panic("injected panic at the batch store")
			}
		}
		return nil
	})
	return &c06Env{Env: env, ctl: ctl, run: run}, nil
}

// plant writes an undecodable record for the key, bypassing Dirk's encoder.
func (e *c06Env) plant(pub []byte, action byte, value []byte) error {
	db := e.Stack.StdRules.VerifStore().VerifDB()
	key := append(append([]byte{}, pub...), action)
	return db.Update(func(txn *badger.Txn) error { return txn.Set(key, value) })
}

type c06Case struct {
	Kind   string         `json:"kind"`
	N      int            `json:"batch_size"`
	Via    string         `json:"via"`
	Faults map[string]int `json:"faults"` // fault -> position
	Result []string       `json:"states,omitempty"`
	SigLen []int          `json:"signature_lengths,omitempty"`
}

// runCase issues one request of the given kind with the given faults (fault name -> position) and judges it.
func (e *c06Env) runCase(r *rand.Rand, kind string, n int, via Via, faults map[string]int) {
	env := e.Env
	// A request that never returns yields no signature, so it is not this property's violation (completion under
	// faults is watched by C15), but it must not hold this check up until the overall watchdog.
	wd := time.AfterFunc(240*time.Second, func() {
		fmt.Printf("INCONCLUSIVE property=C06 reason=a %s request of %d entries did not return within 240 s under faults %v\n", kind, n, faults)
		// All stacks, so that the stall can be attributed afterwards (see DESIGN 9.3, "one unexplained stall").
		buf := make([]byte, 1<<22)
		os.Stdout.Write(buf[:runtime.Stack(buf, true)])
		os.Exit(2)
	})
	defer wd.Stop()
	env.FreshKeys(n)
	runtime.GOMAXPROCS(procsMix[(n+len(faults)+int(via))%len(procsMix)])
	// Half of the cases start from keys that have signed before, so that a failure which rewrites a record shows.
	if (kind == "att" || kind == "atts" || kind == "prop") && r.Intn(2) == 0 {
		if kind == "prop" {
			ruleProp(env.Stack.StdRules, env.Keys[0].Pub, 3)
		} else {
			for i := 0; i < n; i++ {
				ruleAtt(env.Stack.StdRules, env.Keys[i].Pub, 2, 3)
			}
		}
		e.run.Count("cases_with_prior_history", 1)
	}
	addrs := make([]Addr, n)
	for i := range addrs {
		addrs[i] = Addr(r.Intn(2))
	}
	active := map[string][48]byte{}
	names := map[string]string{}
	action := byte(2)
	if kind == "prop" {
		action = 3
	}
	domainLen, dataLen := map[int]int{}, map[int]int{}
	for f, p := range faults {
		active[f] = env.Keys[p].Pub48()
		names[f] = env.Names[p]
		switch f {
		case "locked-unknown-passphrase":
			// Replace the account by a locked one whose passphrase the unlocker does not know.
			k := rig.DetKey(env.family+"-locked", env.nextKey+p)
			env.Keys[p] = k
			env.Names[p] = fmt.Sprintf("W/locked%d-%d", env.nextKey, p)
			env.Synth.Add("W", strings.TrimPrefix(env.Names[p], "W/"), k, "a passphrase nobody configured", false)
			active[f] = k.Pub48()
		case "unlocker-error", "unlocker-false":
			_, a, _ := env.Synth.FetchAccountByKey(context.Background(), env.Keys[p].Pub)
			_ = a.(*rig.SynthAccount).Lock(context.Background())
		case "record-v1-length":
			_ = e.plant(env.Keys[p].Pub, action, []byte{1, 2, 3, 4, 5})
		case "record-bad-version":
			_ = e.plant(env.Keys[p].Pub, action, []byte{0x7f, 0x01, 0x02, 0x03, 0x04, 0x05, 0x06})
		case "record-empty":
			_ = e.plant(env.Keys[p].Pub, action, []byte{})
		case "hash-domain-length":
			domainLen[p] = 31
		case "hash-data-length":
			dataLen[p] = 31
		}
	}
	// The records of every key of the request as stored before it runs.
	type recs struct {
		st  rig.RawState
		err error
	}
	before := make([]recs, n)
	for i := 0; i < n && i < len(env.Keys); i++ {
		st, err := env.Stack.ReadState(env.Keys[i].Pub)
		before[i] = recs{st, err}
	}
	e.ctl.set(active, names)
	var res []core.Result
	var sigs [][]byte
	// A panic in the goroutine that serves the request is what the server's recovery interceptor answers with an
	// error: nothing is signed.  (A panic elsewhere still ends this process.)
	panicked := false
	call := func(f func()) {
		defer func() {
			if p := recover(); p != nil {
				panicked = true
				res, sigs = make([]core.Result, n), make([][]byte, n)
				for i := range res {
					res[i] = core.ResultFailed
				}
				e.run.Count("panics_in_the_serving_goroutine", 1)
			}
		}()
		f()
	}
	// What a signature at each position has to verify for (well-formed entries only).
	type want struct {
		pub  []byte
		root [32]byte
		ok   bool
	}
	wants := make([]want, n)
	switch kind {
	case "generic", "multi":
		cs := make([]*GenCase, n)
		for i := range cs {
			cs[i] = wfGen(r, env, i)
			cs[i].Addr = addrs[i]
			if l, ok := domainLen[i]; ok {
				cs[i].Data.Domain = cs[i].Data.Domain[:l]
			}
			if l, ok := dataLen[i]; ok {
				cs[i].Data.Data = cs[i].Data.Data[:l]
			}
		}
		for i := range cs {
			if len(cs[i].Data.Domain) == 32 && len(cs[i].Data.Data) == 32 {
				wants[i] = want{cs[i].Key.Pub, cs[i].SigningRoot(), true}
			}
		}
		call(func() {
			if kind == "generic" {
				v, s := env.SignGen(via, cs[0])
				res, sigs = []core.Result{v}, [][]byte{s}
			} else {
				res, sigs = env.SignGens(via, cs)
			}
		})
	case "att", "atts":
		cs := make([]*AttCase, n)
		for i := range cs {
			cs[i] = wfAtt(r, env, i)
			cs[i].Addr = addrs[i]
			if l, ok := domainLen[i]; ok {
				cs[i].Data.Domain = cs[i].Data.Domain[:l]
			}
		}
		for i := range cs {
			if len(cs[i].Data.Domain) == 32 {
				wants[i] = want{cs[i].Key.Pub, cs[i].SigningRoot(), true}
			}
		}
		// In larger batches the first entry is sometimes one the rules must refuse (target below source): failures of
		// the batch as a whole must reach the entries after it too.
		refusedFirst := kind == "atts" && n >= 3 && r.Intn(3) == 0
		for _, p := range faults {
			if p == 0 {
				refusedFirst = false // position 0 carries a fault of its own in this case
			}
		}
		if refusedFirst {
			cs[0].Data.Source.Epoch, cs[0].Data.Target.Epoch = cs[0].Data.Target.Epoch+1, cs[0].Data.Source.Epoch
			wants[0].ok = false
		}
		call(func() {
			if kind == "att" {
				v, s := env.SignAtt(via, cs[0])
				res, sigs = []core.Result{v}, [][]byte{s}
			} else {
				res, sigs = env.SignAtts(via, cs)
			}
		})
		if refusedFirst && len(res) > 0 && (res[0] == core.ResultSucceeded || (len(sigs) > 0 && len(sigs[0]) > 0)) {
			e.run.Violate("atts position 0 is an attestation with target below source and came back signed", nil)
		}
	case "prop":
		c := wfProp(r, env, 0)
		c.Addr = addrs[0]
		if l, ok := domainLen[0]; ok {
			c.Data.Domain = c.Data.Domain[:l]
		}
		if len(c.Data.Domain) == 32 {
			wants[0] = want{c.Key.Pub, c.SigningRoot(), true}
		}
		call(func() {
			v, s := env.SignProp(via, c)
			res, sigs = []core.Result{v}, [][]byte{s}
		})
	}
	_ = panicked
	// Which faults actually fired?
	firedPos := map[int][]string{}
	for f, p := range faults {
		fired := e.ctl.firedCount(f) > 0
		switch f {
		case "locked-unknown-passphrase", "record-v1-length", "record-bad-version", "record-empty", "hash-domain-length", "hash-data-length":
			fired = true // state-based faults are on the path by construction (judged only where they apply, below)
		}
		if fired {
			firedPos[p] = append(firedPos[p], f)
			e.run.Count("fired:"+f+"/"+kind, 1)
			e.run.Distinct(fmt.Sprintf("%s %s n=%d pos=%d %s", f, kind, n, p, viaName(via)))
		} else {
			e.run.Count("not-reached:"+f+"/"+kind, 1)
		}
	}
	e.ctl.set(nil, nil)
	rec := c06Case{Kind: kind, N: n, Via: viaName(via), Faults: faults}
	for i := range res {
		rec.Result = append(rec.Result, res[i].String())
		l := 0
		if i < len(sigs) {
			l = len(sigs[i])
		}
		rec.SigLen = append(rec.SigLen, l)
	}
	e.run.Eval(1)
	e.run.Sample(rec)
	if len(sigs) > len(res) {
		for i := len(res); i < len(sigs); i++ {
			if len(sigs[i]) > 0 {
				e.run.Violate(fmt.Sprintf("signature at position %d beyond the %d returned states", i, len(res)), rec)
			}
		}
	}
	for i := range res {
		has := i < len(sigs) && len(sigs[i]) > 0
		if has != (res[i] == core.ResultSucceeded) {
			e.run.Violate(fmt.Sprintf("%s position %d: state %s with signature length %d (a signature iff SUCCEEDED)", kind, i, res[i], rec.SigLen[i]), rec)
		}
	}
	// A failed write of the batch fails every entry of the batch.
	for _, fs := range firedPos {
		for _, f := range fs {
			if (f == "store-batchstore-error" || f == "store-batchstore-panic") && kind == "atts" {
				for i := range res {
					if res[i] == core.ResultSucceeded || (i < len(sigs) && len(sigs[i]) > 0) {
						e.run.Violate(fmt.Sprintf("atts position %d of %d signed although the batch's state write failed", i, n), rec)
					}
				}
			}
		}
	}
	// An entry that was not signed must not take anything away from its key's records: what was recorded before is
	// still recorded (a failure may leave a record advanced - approved and stored, then failed later - never lowered
	// or replaced by something unreadable).
	for i := 0; i < n && i < len(env.Keys) && i < len(res); i++ {
		if res[i] == core.ResultSucceeded || before[i].err != nil {
			continue
		}
		b := before[i].st
		a, err := env.Stack.ReadState(env.Keys[i].Pub)
		planted := false
		for f, p := range faults {
			if p == i && strings.HasPrefix(f, "record-") {
				planted = true // this case itself planted an unreadable record for the key
			}
		}
		if planted {
			continue
		}
		switch {
		case err != nil:
			e.run.Violate(fmt.Sprintf("%s position %d of %d was not signed (%s) and its key's records can no longer be read: %v (faults %v)", kind, i, n, res[i], err, faults), rec)
		case (b.HasAtt && (!a.HasAtt || a.Src < b.Src || a.Tgt < b.Tgt)) || (b.HasProp && (!a.HasProp || a.Slot < b.Slot)):
			e.run.Violate(fmt.Sprintf("%s position %d of %d was not signed (%s), yet its key's stored records went from %+v to %+v (faults %v)", kind, i, n, res[i], b, a, faults), rec)
		default:
			e.run.Count("unsigned_entries_with_records_intact", 1)
		}
	}
	// A fault at one position must not spoil what the other positions get: every signature that does come back is
	// a signature of its own entry.
	for i := range res {
		if i < len(sigs) && len(sigs[i]) > 0 && i < len(wants) && wants[i].ok {
			if ok, _ := oracle.VerifySig(wants[i].pub, wants[i].root[:], sigs[i]); !ok {
				e.run.Violate(fmt.Sprintf("%s position %d of %d: the signature returned next to a faulted entry does not verify for its own account and data (faults %v)", kind, i, n, faults), rec)
			} else {
				e.run.Count("signatures_verified_beside_faults", 1)
			}
		}
	}
	for p, fs := range firedPos {
		for _, f := range fs {
			if !c06Applies(f, kind, n) {
				continue
			}
			if p < len(res) && (res[p] == core.ResultSucceeded || (p < len(sigs) && len(sigs[p]) > 0)) {
				e.run.Violate(fmt.Sprintf("%s position %d signed although fault %q was injected on its path", kind, p, f), rec)
			}
		}
	}
}

// c06Applies says whether a state-based fault is on the path of the request kind at all.
func c06Applies(f, kind string, n int) bool {
	switch f {
	case "record-v1-length", "record-bad-version", "record-empty":
		return kind == "att" || kind == "atts" || kind == "prop"
	case "hash-data-length":
		return kind == "generic" || kind == "multi"
	case "store-batchstore-panic":
		return kind == "atts" && n >= 2
	}
	return true
}

type stubSigner struct {
	signer.Service // nil: only here so that the stub keeps compiling if the interface grows
	res            core.Result
	sig            []byte
	n              int
}

func (s *stubSigner) SignGeneric(context.Context, *checker.Credentials, string, []byte, *rules.SignData) (core.Result, []byte) {
	return s.res, s.sig
}
func (s *stubSigner) multi(n int) ([]core.Result, [][]byte) {
	rs, ss := make([]core.Result, n), make([][]byte, n)
	for i := range rs {
		rs[i], ss[i] = s.res, s.sig
	}
	return rs, ss
}
func (s *stubSigner) Multisign(_ context.Context, _ *checker.Credentials, a []string, _ [][]byte, _ []*rules.SignData) ([]core.Result, [][]byte) {
	return s.multi(len(a))
}
func (s *stubSigner) SignBeaconAttestation(context.Context, *checker.Credentials, string, []byte, *rules.SignBeaconAttestationData) (core.Result, []byte) {
	return s.res, s.sig
}
func (s *stubSigner) SignBeaconAttestations(_ context.Context, _ *checker.Credentials, a []string, _ [][]byte, _ []*rules.SignBeaconAttestationData) ([]core.Result, [][]byte) {
	return s.multi(len(a))
}
func (s *stubSigner) SignBeaconProposal(context.Context, *checker.Credentials, string, []byte, *rules.SignBeaconProposalData) (core.Result, []byte) {
	return s.res, s.sig
}

var _ signer.Service = (*stubSigner)(nil)

// c06Handlers checks the handler layer alone: whatever a signer returns, the response carries a signature iff SUCCEEDED.
func c06Handlers(run *evid.Run, env *Env, r *rand.Rand) {
	env.FreshKeys(3)
	for _, res := range []core.Result{core.ResultUnknown, core.ResultDenied, core.ResultFailed, core.ResultSucceeded, core.Result(7)} {
		for _, sig := range [][]byte{nil, randBytes(r, 96)} {
			h, err := signerhandler.New(context.Background(), signerhandler.WithSigner(&stubSigner{res: res, sig: sig}))
			if err != nil {
				run.Inconclusive(err.Error())
				return
			}
			ctx := rig.HandlerCtx("client1", "10.0.0.1")
			check := func(ep string, st pb.ResponseState, s []byte) {
				run.Eval(1)
				run.Distinct(fmt.Sprintf("handler %s signer-result=%d sig=%d -> %s/%d", ep, res, len(sig), st, len(s)))
				if res != core.ResultSucceeded && len(s) > 0 {
					run.Violate(fmt.Sprintf("handler %s copied a signature although the signer returned result %d", ep, res), nil)
				}
				if len(s) > 0 != (st == pb.ResponseState_SUCCEEDED) && !(res == core.ResultSucceeded && len(sig) == 0) {
					run.Violate(fmt.Sprintf("handler %s: state %s with signature length %d", ep, st, len(s)), nil)
				}
			}
			g := pbGenReq(wfGen(r, env, 0))
			if out, err := h.Sign(ctx, g); err == nil {
				check("Sign", out.GetState(), out.GetSignature())
			}
			if out, err := h.Multisign(ctx, &pb.MultisignRequest{Requests: []*pb.SignRequest{g, pbGenReq(wfGen(r, env, 1))}}); err == nil {
				for _, o := range out.GetResponses() {
					check("Multisign", o.GetState(), o.GetSignature())
				}
			}
			a := pbAttReq(wfAtt(r, env, 0))
			if out, err := h.SignBeaconAttestation(ctx, a); err == nil {
				check("SignBeaconAttestation", out.GetState(), out.GetSignature())
			}
			if out, err := h.SignBeaconAttestations(ctx, &pb.SignBeaconAttestationsRequest{Requests: []*pb.SignBeaconAttestationRequest{a, pbAttReq(wfAtt(r, env, 1))}}); err == nil {
				for _, o := range out.GetResponses() {
					check("SignBeaconAttestations", o.GetState(), o.GetSignature())
				}
			}
			p := wfProp(r, env, 0)
			preq := &pb.SignBeaconProposalRequest{Id: &pb.SignBeaconProposalRequest_Account{Account: p.Name}, Domain: p.Data.Domain,
				Data: &pb.BeaconBlockHeader{Slot: p.Data.Slot, ProposerIndex: 1, ParentRoot: p.Data.ParentRoot, StateRoot: p.Data.StateRoot, BodyRoot: p.Data.BodyRoot}}
			if out, err := h.SignBeaconProposal(ctx, preq); err == nil {
				check("SignBeaconProposal", out.GetState(), out.GetSignature())
			}
		}
	}
}

// C06 injects every single fault at every dependency call site for every request kind and batch
// position, then random multi-fault sequences, a closed store, and a store closed under load.
func C06(cfg Cfg) int {
	run := evid.New("C06", cfg.Tier, cfg.Seed, "fault_enumeration")
	run.Rule = "each of 24 single faults (fetcher, checker, locked account, unlocker, IsUnlocked, rules/ruler FAILED|UNKNOWN|DENIED|short list, store Fetch/Store/BatchStore errors via verifhook, three kinds of undecodable record, hashing failures, Sign error) x five request kinds x batch sizes {1,2,5,17} x every position, " +
		"at the service boundary and through the handler after a wire round trip; then seeded multi-fault sequences, a handler-only matrix over a stub signer, a closed store, and a store closed under load (child process); distinct = (fault, kind, size, position, boundary) cells in which the fault fired"
	run.Assume = []string{"faults are injected through exported interfaces and the verif-tagged storage hook; values outside the four defined rule results are not injected"}
	r := cfg.Rand("c06")
	defer runtime.GOMAXPROCS(runtime.GOMAXPROCS(0))
	e, err := newC06Env(run, cfg, "c06")
	if err != nil {
		run.Inconclusive(err.Error())
		return run.Finish()
	}
	defer verifhook.Set(nil)
	sizes := []int{1, 2, 5, 17}
	rounds := cfg.N(1, 40)
	for round := 0; round < rounds; round++ {
		for _, f := range c06Faults {
			for _, kind := range []string{"generic", "multi", "att", "atts", "prop"} {
				ns := []int{1}
				if kind == "multi" || kind == "atts" {
					ns = sizes
				}
				for _, n := range ns {
					for pos := 0; pos < n; pos++ {
						if strings.HasSuffix(f, "-short") && pos != n-1 {
							continue
						}
						via := Via((pos + n + round) % 2)
						if strings.HasPrefix(f, "hash-") && via == ViaService && false {
							continue
						}
						e.runCase(r, kind, n, via, map[string]int{f: pos})
						if run.NumViolations() > 8 {
							goto done
						}
					}
				}
			}
		}
		// Multi-fault sequences.
		for k := 0; k < cfg.N(500, 1000); k++ {
			kind := []string{"generic", "multi", "att", "atts", "prop"}[r.Intn(5)]
			n := 1
			if kind == "multi" || kind == "atts" {
				n = sizes[r.Intn(len(sizes))]
			}
			faults := map[string]int{}
			for j := 0; j < 2+r.Intn(3); j++ {
				f := c06Faults[r.Intn(len(c06Faults))]
				p := r.Intn(n)
				if strings.HasSuffix(f, "-short") {
					p = n - 1
				}
				if f == "locked-unknown-passphrase" {
					continue // replaces the account; keep sequences simple
				}
				faults[f] = p
			}
			e.runCase(r, kind, n, Via(r.Intn(2)), faults)
			run.Count("multi_fault_cases", 1)
			if run.NumViolations() > 8 {
				goto done
			}
		}
	}
done:
	c06Handlers(run, e.Env, r)
	c06Malformed(run, e)
	// Every fault must have fired somewhere, otherwise the matrix has a hole.
	for _, f := range c06Faults {
		total := 0
		for _, kind := range []string{"generic", "multi", "att", "atts", "prop"} {
			total += run.Get("fired:" + f + "/" + kind)
		}
		if total == 0 {
			run.Inconclusive("fault " + f + " never fired")
		}
	}
	// Store closed with nothing in flight: every later attestation/proposal must come back without a signature.
	if err := e.Stack.CloseRules(); err != nil {
		run.Inconclusive("close failed: " + err.Error())
	} else {
		for k := 0; k < 40; k++ {
			kind := []string{"att", "atts", "prop", "generic", "multi"}[k%5]
			n := 1
			if kind == "atts" || kind == "multi" {
				n = 3
			}
			before := run.NumViolations()
			e.runCase(r, kind, n, Via(k%2), map[string]int{})
			_ = before
			run.Count("closed_store_cases", 1)
		}
		c06ClosedMustRefuse(run, e, r)
	}
	e.Stack.Cancel()
	c06CloseUnderLoad(run, cfg)
	return run.Finish()
}

// c06ClosedMustRefuse: with the store closed, attestation and proposal requests cannot be decided, so none may succeed.
func c06ClosedMustRefuse(run *evid.Run, e *c06Env, r *rand.Rand) {
	env := e.Env
	env.FreshKeys(3)
	for k := 0; k < 12; k++ {
		via := Via(k % 2)
		a := wfAtt(r, env, 0)
		if v, s := env.SignAtt(via, a); v == core.ResultSucceeded || len(s) > 0 {
			run.Violate("attestation signed although the slashing-protection store is closed", nil)
		}
		cs := []*AttCase{wfAtt(r, env, 0), wfAtt(r, env, 1), wfAtt(r, env, 2)}
		vs, ss := env.SignAtts(via, cs)
		for i := range vs {
			if vs[i] == core.ResultSucceeded || (i < len(ss) && len(ss[i]) > 0) {
				run.Violate("batch attestation signed although the slashing-protection store is closed", nil)
			}
		}
		if v, s := env.SignProp(via, wfProp(r, env, 1)); v == core.ResultSucceeded || len(s) > 0 {
			run.Violate("proposal signed although the slashing-protection store is closed", nil)
		}
		run.Eval(3)
		run.Count("closed_store_refusals_checked", 3)
	}
	run.Distinct("store closed, nothing in flight")
}

// c06CloseUnderLoad runs the close-under-load scenario in a child (badger may crash the process when closed
// with reads in flight; that death is tolerated, the oracle is applied to what the child reported).
func c06CloseUnderLoad(run *evid.Run, cfg Cfg) {
	bin := os.Getenv("VH_BIN")
	if bin == "" {
		bin = "/verif/.bin/vh"
	}
	for round := 0; round < cfg.N(6, 40); round++ {
		dir := filepath.Join(cfg.Work, fmt.Sprintf("closeload-%d", round))
		db, lg := dir+"-db", dir+"-events.log"
		_ = os.RemoveAll(db)
		_ = os.Remove(lg)
		res := runChild(cfg, bin, "C06closechild", dir, 2*time.Minute, nil, fmt.Sprint(round), db, lg)
		if res.TimedOut {
			run.Inconclusive("close-under-load child hung")
			return
		}
		absorbChild(run, res, "closeload_", "close under load: ")
		if res.Err != nil {
			run.Count("closeload_child_deaths_tolerated", 1)
		}
		// Every signature that left the child must be covered by the reopened store (verified by a fresh process).
		ver := runChild(cfg, bin, "C03child", dir+"-verify", 2*time.Minute, nil, db, lg, "7000", "0", "none", "0")
		absorbChild(run, ver, "closeload_verify_", "close under load, after reopening the store: ")
		run.Distinct(fmt.Sprintf("store closed under load, round %d", round))
		_ = os.RemoveAll(db)
		_ = os.Remove(lg)
	}
	if run.Get("closeload_responses") == 0 || run.Get("closeload_verify_events_checked") == 0 {
		run.Inconclusive("close-under-load child reported no responses or nothing was verified after reopening")
	}
	// One request exactly between its read and its write when the store starts closing.
	cr := runChild(cfg, bin, "C06closerace", filepath.Join(cfg.Work, "closerace"), 5*time.Minute, nil)
	absorbChild(run, cr, "", "store closing under an in-flight request: ")
	if cr.Err != nil && !strings.Contains(cr.Out, "CHILD-VIOLATION") {
		run.Count("closerace_child_deaths_tolerated", 1)
	}
	if run.Get("close_race_rounds") == 0 {
		run.Inconclusive("close-race child completed no round: " + tail(cr.Out, 400))
	}
	// OS-level write failure on the value log.
	io := runChild(cfg, bin, "C06iochild", filepath.Join(cfg.Work, "iofault"), 2*time.Minute, nil)
	absorbChild(run, io, "", "value log unwritable: ")
	if strings.Contains(io.Out, "CHILD-INCONCLUSIVE") || run.Get("io_fault_requests") == 0 {
		run.Inconclusive("I/O fault child did not run its requests: " + tail(io.Out, 400))
	}
	run.Distinct("value log writes fail at OS level")
}

func init() { Children["C06closechild"] = c06CloseChild }

func c06CloseChild(cfg Cfg) int {
	run := evid.New("C06closechild", cfg.Tier, cfg.Seed, "fault_enumeration")
	// Same key family and storage directory as the verifying C03child incarnation the parent runs afterwards.
	env := &Env{Run: run, Synth: rig.NewSynthFetcher(), Probes: &rig.Probes{}, Client: "client1", IP: "10.0.0.1", pending: map[[80]byte]pendingReq{}, family: fmt.Sprintf("c03-%d-%d", cfg.Seed, 7000)}
	env.Creds = rig.Client1()
	st, err := rig.NewStack(rig.StackOpts{StorageDir: cfg.Args[1], Fetcher: &rig.MonFetcher{Inner: env.Synth, Probes: env.Probes}})
	if err != nil {
		fmt.Println("cannot build stack:", err)
		return 3
	}
	env.Stack = st
	// 16 keys (the first three are the ones the verifying incarnation also probes with conflicting twins): each
	// worker mostly works on its own key, so that many requests are between their read and their write when the
	// store closes; the single-key write path (single attestations, proposals) and the batch path are both in use.
	const nk = 16
	env.FreshKeys(nk)
	lf, err := os.OpenFile(cfg.Args[2], os.O_WRONLY|os.O_APPEND|os.O_CREATE, 0o644)
	if err != nil {
		fmt.Println("cannot open event log:", err)
		return 3
	}
	elog := &c03Log{f: lf}
	var mu sync.Mutex
	responses := 0
	closed := make(chan struct{})
	var epoch atomic.Uint64
	var wg sync.WaitGroup
	for c := 0; c < 16; c++ {
		wg.Add(1)
		go func(c int) {
			defer wg.Done()
			r := rand.New(rand.NewSource(cfg.Seed*31 + int64(c)))
			for i := 0; i < 400; i++ {
				e := epoch.Add(2)
				isClosed := false
				select {
				case <-closed:
					isClosed = true
				default:
				}
				if r.Intn(4) == 0 {
					p := mkProp(env.Keys[c%nk], env.Names[c%nk], 0, byte(c))
					p.Data.Slot = e
					v, sg := env.SignProp(ViaService, p)
					if (len(sg) > 0) != (v == core.ResultSucceeded) {
						fmt.Printf("CHILD-VIOLATION state %s with signature length %d while the store was being closed\n", v, len(sg))
					}
					if v == core.ResultSucceeded {
						root := p.SigningRoot()
						elog.write("REL %x prop 0 %d %x", p.Key.Pub, p.Data.Slot, root[:])
						if isClosed {
							fmt.Println("CHILD-VIOLATION proposal signed after the store had been closed")
						}
					}
					mu.Lock()
					responses++
					if responses%10 == 0 {
						fmt.Printf("STAT responses %d\n", 10)
					}
					mu.Unlock()
					continue
				}
				n := 1 + r.Intn(3)
				if r.Intn(2) == 0 {
					n = 1
				}
				perm := []int{c % nk, (c + 1) % nk, (c + 5) % nk}[:n]
				cs := make([]*AttCase, n)
				for j, k := range perm {
					cs[j] = mkAtt(env.Keys[k], env.Names[k], 0, 1, byte(c))
					cs[j].Data.Source.Epoch, cs[j].Data.Target.Epoch = e, e+1
				}
				var vs []core.Result
				var ss [][]byte
				if n == 1 {
					v, s := env.SignAtt(ViaService, cs[0])
					vs, ss = []core.Result{v}, [][]byte{s}
				} else {
					vs, ss = env.SignAtts(ViaService, cs)
				}
				for j := range vs {
					var s []byte
					if j < len(ss) {
						s = ss[j]
					}
					if (len(s) > 0) != (vs[j] == core.ResultSucceeded) {
						fmt.Printf("CHILD-VIOLATION state %s with signature length %d while the store was being closed\n", vs[j], len(s))
					}
					if vs[j] == core.ResultSucceeded && j < len(cs) {
						root := cs[j].SigningRoot()
						elog.write("REL %x att %d %d %x", cs[j].Key.Pub, cs[j].Data.Source.Epoch, cs[j].Data.Target.Epoch, root[:])
						if isClosed {
							fmt.Println("CHILD-VIOLATION attestation signed after the store had been closed")
						}
					}
				}
				mu.Lock()
				responses++
				if responses%10 == 0 {
					fmt.Printf("STAT responses %d\n", 10)
				}
				mu.Unlock()
			}
		}(c)
	}
	time.Sleep(time.Duration(60+40*(int(cfg.Args[0][0]-'0')%4)) * time.Millisecond)
	_ = env.Stack.CloseRules()
	close(closed)
	wg.Wait()
	fmt.Printf("STAT survived 1\n")
	return 0
}

func init() { Children["C06iochild"] = c06IOChild }

// c06IOChild makes every write to the value log fail at the OS level (a read-only descriptor is dup3-ed over
// the value log's descriptor) and then issues every kind of request: attestations and proposals cannot be
// recorded any more, so none may be signed.
func c06IOChild(cfg Cfg) int {
	run := evid.New("C06iochild", cfg.Tier, cfg.Seed, "fault_enumeration")
	env, err := NewEnv(run, cfg, "iofault", rig.StackOpts{})
	if err != nil {
		fmt.Println("cannot build env:", err)
		return 3
	}
	r := cfg.Rand("c06io")
	env.FreshKeys(6)
	// Healthy first, so that the value log exists and is open.
	if v, _ := env.SignAtt(ViaService, wfAtt(r, env, 0)); v != core.ResultSucceeded {
		fmt.Println("CHILD-INCONCLUSIVE healthy request not signed")
		return 3
	}
	broken := 0
	ents, _ := os.ReadDir("/proc/self/fd")
	for _, ent := range ents {
		target, err := os.Readlink("/proc/self/fd/" + ent.Name())
		if err != nil || !strings.HasSuffix(target, ".vlog") {
			continue
		}
		fd, _ := strconv.Atoi(ent.Name())
		ro, err := syscall.Open(target, syscall.O_RDONLY, 0)
		if err != nil {
			continue
		}
		if err := syscall.Dup3(ro, fd, 0); err == nil {
			broken++
		}
		_ = syscall.Close(ro)
	}
	if broken == 0 {
		fmt.Println("CHILD-INCONCLUSIVE no value log descriptor found")
		return 3
	}
	fmt.Printf("STAT vlog_fds_broken %d\n", broken)
	checked := 0
	for k := 0; k < 12; k++ {
		via := Via(k % 2)
		env.FreshKeys(5)
		if v, s := env.SignAtt(via, wfAtt(r, env, 0)); v == core.ResultSucceeded || len(s) > 0 {
			fmt.Println("CHILD-VIOLATION attestation signed although writes to the slashing-protection value log fail")
		}
		n := 2 + k%3
		cs := make([]*AttCase, n)
		for i := range cs {
			cs[i] = wfAtt(r, env, 1+i)
		}
		vs, ss := env.SignAtts(via, cs)
		for i := range vs {
			if vs[i] == core.ResultSucceeded || (i < len(ss) && len(ss[i]) > 0) {
				fmt.Printf("CHILD-VIOLATION batch attestation position %d of %d signed although writes to the slashing-protection value log fail\n", i, n)
			}
		}
		if v, s := env.SignProp(via, wfProp(r, env, 0)); v == core.ResultSucceeded || len(s) > 0 {
			fmt.Println("CHILD-VIOLATION proposal signed although writes to the slashing-protection value log fail")
		}
		checked += 2 + n
	}
	fmt.Printf("STAT io_fault_requests %d\n", checked)
	return 0
}

// c06Malformed hands the real signer service and the real ruler arguments that cannot be decided (absent
// credentials, absent data, absent checkpoints, identifier lists shorter than the data list, unknown actions,
// data of the wrong type): nothing of it may come back signed or approved.  A panic is counted, not judged (it is
// not a signature; crashes are C20's subject).
func c06Malformed(run *evid.Run, e *c06Env) {
	e.ctl.set(nil, nil)
	e.FreshKeys(4)
	bg := context.Background()
	sv := e.Stack.Signer
	creds := rig.Client1()
	epoch := uint64(1000)
	att := func(k int) *rules.SignBeaconAttestationData {
		epoch += 2
		return &rules.SignBeaconAttestationData{Domain: Dom(DomainAttester, 0), Slot: epoch * 32, BeaconBlockRoot: Root32(5),
			Source: &rules.Checkpoint{Epoch: epoch, Root: Root32(1)}, Target: &rules.Checkpoint{Epoch: epoch + 1, Root: Root32(2)}}
	}
	prop := func() *rules.SignBeaconProposalData {
		epoch += 2
		return &rules.SignBeaconProposalData{Domain: Dom(DomainProposer, 0), Slot: epoch, ParentRoot: Root32(3), StateRoot: Root32(4), BodyRoot: Root32(5)}
	}
	gen := func() *rules.SignData { return &rules.SignData{Domain: Dom([]byte{9, 0, 0, 0}, 1), Data: Root32(6)} }
	guard := func(desc string, f func() ([]core.Result, [][]byte), bad []int) {
		run.Eval(1)
		run.Count("malformed_argument_cases", 1)
		var res []core.Result
		var sigs [][]byte
		func() {
			defer func() {
				if p := recover(); p != nil {
					run.Count("malformed_argument_panics", 1)
					run.Distinct("malformed " + desc + " -> panic")
				}
			}()
			res, sigs = f()
		}()
		run.Distinct(fmt.Sprintf("malformed %s -> %v", desc, res))
		for _, p := range bad {
			if p < len(res) && res[p] == core.ResultSucceeded {
				run.Violate(fmt.Sprintf("%s: position %d reported SUCCEEDED", desc, p), nil)
			}
			if p < len(sigs) && len(sigs[p]) > 0 {
				run.Violate(fmt.Sprintf("%s: position %d carries a signature", desc, p), nil)
			}
		}
		for i := range sigs {
			if len(sigs[i]) > 0 && (i >= len(res) || res[i] != core.ResultSucceeded) {
				run.Violate(fmt.Sprintf("%s: position %d carries a signature without SUCCEEDED", desc, i), nil)
			}
		}
	}
	one := func(r core.Result, s []byte) ([]core.Result, [][]byte) { return []core.Result{r}, [][]byte{s} }
	k := e.Keys
	nm := e.Names
	for _, c := range []*checker.Credentials{nil, {RequestID: "r", Client: "", IP: "10.0.0.1"}} {
		c := c
		what := "nil credentials"
		if c != nil {
			what = "credentials without a client"
		}
		guard(what+" / generic", func() ([]core.Result, [][]byte) { return one(sv.SignGeneric(bg, c, nm[0], nil, gen())) }, []int{0})
		guard(what+" / attestation", func() ([]core.Result, [][]byte) { return one(sv.SignBeaconAttestation(bg, c, nm[0], nil, att(0))) }, []int{0})
		guard(what+" / proposal", func() ([]core.Result, [][]byte) { return one(sv.SignBeaconProposal(bg, c, nm[0], nil, prop())) }, []int{0})
		guard(what+" / multisign", func() ([]core.Result, [][]byte) {
			return sv.Multisign(bg, c, []string{nm[0], nm[1]}, [][]byte{nil, nil}, []*rules.SignData{gen(), gen()})
		}, []int{0, 1})
		guard(what+" / attestations", func() ([]core.Result, [][]byte) {
			return sv.SignBeaconAttestations(bg, c, []string{nm[0], nm[1]}, [][]byte{nil, nil}, []*rules.SignBeaconAttestationData{att(0), att(1)})
		}, []int{0, 1})
	}
	guard("generic nil data", func() ([]core.Result, [][]byte) { return one(sv.SignGeneric(bg, creds, nm[0], nil, nil)) }, []int{0})
	guard("generic nil Data field", func() ([]core.Result, [][]byte) {
		return one(sv.SignGeneric(bg, creds, nm[0], nil, &rules.SignData{Domain: Dom([]byte{9, 0, 0, 0}, 1)}))
	}, []int{0})
	guard("generic nil Domain field", func() ([]core.Result, [][]byte) {
		return one(sv.SignGeneric(bg, creds, nm[0], nil, &rules.SignData{Data: Root32(1)}))
	}, []int{0})
	guard("attestation nil data", func() ([]core.Result, [][]byte) { return one(sv.SignBeaconAttestation(bg, creds, nm[0], nil, nil)) }, []int{0})
	guard("attestation nil source", func() ([]core.Result, [][]byte) {
		d := att(0)
		d.Source = nil
		return one(sv.SignBeaconAttestation(bg, creds, nm[0], nil, d))
	}, []int{0})
	guard("attestation nil target", func() ([]core.Result, [][]byte) {
		d := att(0)
		d.Target = nil
		return one(sv.SignBeaconAttestation(bg, creds, nm[0], nil, d))
	}, []int{0})
	guard("proposal nil data", func() ([]core.Result, [][]byte) { return one(sv.SignBeaconProposal(bg, creds, nm[0], nil, nil)) }, []int{0})
	guard("no account name and no key", func() ([]core.Result, [][]byte) { return one(sv.SignBeaconProposal(bg, creds, "", nil, prop())) }, []int{0})
	for p := 0; p < 3; p++ {
		p := p
		for _, hole := range []string{"nil entry", "nil source", "nil target"} {
			hole := hole
			guard(fmt.Sprintf("attestations with %s at %d", hole, p), func() ([]core.Result, [][]byte) {
				ds := []*rules.SignBeaconAttestationData{att(0), att(1), att(2)}
				switch hole {
				case "nil entry":
					ds[p] = nil
				case "nil source":
					ds[p].Source = nil
				default:
					ds[p].Target = nil
				}
				return sv.SignBeaconAttestations(bg, creds, []string{nm[0], nm[1], nm[2]}, [][]byte{nil, nil, nil}, ds)
			}, []int{p})
		}
		for _, hole := range []string{"nil entry", "nil Data field", "nil Domain field"} {
			hole := hole
			guard(fmt.Sprintf("multisign with %s at %d", hole, p), func() ([]core.Result, [][]byte) {
				ds := []*rules.SignData{gen(), gen(), gen()}
				switch hole {
				case "nil entry":
					ds[p] = nil
				case "nil Data field":
					ds[p].Data = nil
				default:
					ds[p].Domain = nil
				}
				return sv.Multisign(bg, creds, []string{nm[0], nm[1], nm[2]}, [][]byte{nil, nil, nil}, ds)
			}, []int{p})
		}
	}
	guard("attestations empty batch", func() ([]core.Result, [][]byte) { return sv.SignBeaconAttestations(bg, creds, nil, nil, nil) }, []int{0})
	guard("multisign empty batch", func() ([]core.Result, [][]byte) { return sv.Multisign(bg, creds, nil, nil, nil) }, []int{0})
	guard("attestations with fewer identifiers than data", func() ([]core.Result, [][]byte) {
		return sv.SignBeaconAttestations(bg, creds, []string{nm[0]}, [][]byte{nil}, []*rules.SignBeaconAttestationData{att(0), att(1), att(2)})
	}, []int{1, 2})
	guard("multisign with fewer identifiers than data", func() ([]core.Result, [][]byte) {
		return sv.Multisign(bg, creds, []string{nm[0]}, [][]byte{nil}, []*rules.SignData{gen(), gen(), gen()})
	}, []int{1, 2})
	guard("attestations with an empty identifier in the middle", func() ([]core.Result, [][]byte) {
		return sv.SignBeaconAttestations(bg, creds, []string{nm[0], "", nm[2]}, [][]byte{nil, nil, nil}, []*rules.SignBeaconAttestationData{att(0), att(1), att(2)})
	}, []int{1})

	// The ruler, directly.
	rl := e.Stack.Ruler
	rd := func(i int, data any) *ruler.RulesData {
		return &ruler.RulesData{WalletName: "W", AccountName: strings.TrimPrefix(nm[i], "W/"), PubKey: k[i].Pub, Data: data}
	}
	rguard := func(desc string, f func() []rules.Result, bad []int) {
		run.Eval(1)
		run.Count("malformed_ruler_cases", 1)
		var res []rules.Result
		func() {
			defer func() {
				if p := recover(); p != nil {
					run.Count("malformed_argument_panics", 1)
					run.Distinct("ruler " + desc + " -> panic")
				}
			}()
			res = f()
		}()
		run.Distinct(fmt.Sprintf("ruler %s -> %v", desc, res))
		for _, p := range bad {
			if p < len(res) && res[p] == rules.APPROVED {
				run.Violate(fmt.Sprintf("ruler approved position %d of a request that cannot be decided: %s", p, desc), nil)
			}
		}
	}
	rguard("no entries", func() []rules.Result { return rl.RunRules(bg, creds, ruler.ActionSignBeaconAttestation, nil) }, []int{0})
	rguard("nil entry", func() []rules.Result {
		return rl.RunRules(bg, creds, ruler.ActionSignBeaconAttestation, []*ruler.RulesData{nil})
	}, []int{0})
	rguard("nil data", func() []rules.Result {
		return rl.RunRules(bg, creds, ruler.ActionSignBeaconAttestation, []*ruler.RulesData{rd(0, nil)})
	}, []int{0})
	rguard("empty key", func() []rules.Result {
		d := rd(0, att(0))
		d.PubKey = nil
		return rl.RunRules(bg, creds, ruler.ActionSignBeaconAttestation, []*ruler.RulesData{d})
	}, []int{0})
	rguard("unknown action", func() []rules.Result {
		return rl.RunRules(bg, creds, "Sign anything", []*ruler.RulesData{rd(0, att(0))})
	}, []int{0})
	rguard("nil credentials", func() []rules.Result {
		return rl.RunRules(bg, nil, ruler.ActionSignBeaconAttestation, []*ruler.RulesData{rd(0, att(0))})
	}, []int{0})
	rguard("credentials without a client", func() []rules.Result {
		return rl.RunRules(bg, &checker.Credentials{RequestID: "r", IP: "10.0.0.1"}, ruler.ActionSignBeaconProposal, []*ruler.RulesData{rd(0, prop())})
	}, []int{0})
	for _, c := range []struct {
		action string
		data   any
	}{{ruler.ActionSign, att(0)}, {ruler.ActionSignBeaconAttestation, prop()}, {ruler.ActionSignBeaconProposal, att(0)}, {ruler.ActionSignBeaconProposal, gen()},
		{ruler.ActionSignBeaconAttestation, gen()}, {ruler.ActionAccessAccount, gen()}, {ruler.ActionLockAccount, att(0)}, {ruler.ActionCreateAccount, att(0)}} {
		c := c
		rguard(fmt.Sprintf("data of type %T for action %q", c.data, c.action), func() []rules.Result { return rl.RunRules(bg, creds, c.action, []*ruler.RulesData{rd(1, c.data)}) }, []int{0})
	}
	rguard("attestation batch with a proposal at position 1", func() []rules.Result {
		return rl.RunRules(bg, creds, ruler.ActionSignBeaconAttestation, []*ruler.RulesData{rd(0, att(0)), rd(1, prop()), rd(2, att(2))})
	}, []int{1})
	rguard("attestation batch with a nil entry at position 1", func() []rules.Result {
		return rl.RunRules(bg, creds, ruler.ActionSignBeaconAttestation, []*ruler.RulesData{rd(0, att(0)), nil, rd(2, att(2))})
	}, []int{1})
	rguard("attestation batch without an account name at position 2", func() []rules.Result {
		d := rd(2, att(2))
		d.AccountName = ""
		return rl.RunRules(bg, creds, ruler.ActionSignBeaconAttestation, []*ruler.RulesData{rd(0, att(0)), rd(1, att(1)), d})
	}, []int{2})
}

func init() { Children["C06closerace"] = c06CloseRace }

// c06CloseRace places ONE request exactly between its read and its write (parked at the storage hook) when the
// store starts closing - what a graceful shutdown does to an in-flight request - and lets it go on while the close
// is running.  Whatever the request then returns, a signature may only leave if the reopened store covers it, and a
// conflicting twin must be refused afterwards.
func c06CloseRace(cfg Cfg) int {
	run := evid.New("C06closerace", cfg.Tier, cfg.Seed, "fault_enumeration")
	rounds := cfg.N(10, 60)
	for round := 0; round < rounds; round++ {
		env, err := NewEnv(run, cfg, fmt.Sprintf("c06-closerace-%d", round), rig.StackOpts{})
		if err != nil {
			fmt.Println("CHILD-INCONCLUSIVE", err)
			return 3
		}
		env.FreshKeys(3)
		// History of many other validators (an operator's instance holds tens of thousands), so that closing has a
		// memtable to flush and takes a realistic time; written through the real batch rule.
		if round%2 == 0 {
			const per = 4000
			for b := 0; b < 10; b++ {
				pubs := make([][]byte, per)
				srcs, tgts := make([]uint64, per), make([]uint64, per)
				for i := range pubs {
					pubs[i] = rig.OpaqueKey(fmt.Sprintf("closerace-%d-%d-%d", round, b, i), 0x90).Pub
					srcs[i], tgts[i] = 3, 4
				}
				ruleAtts(env.Stack.Rules, pubs, srcs, tgts)
			}
		}
		for i := 0; i < 40+20*(round%4); i++ {
			a := mkAtt(env.Keys[1+i%2], env.Names[1+i%2], 0, 1, 0x11)
			a.Data.Source.Epoch, a.Data.Target.Epoch = uint64(i+1), uint64(i+2)
			env.SignAtt(ViaService, a)
		}
		kind := []string{"prop", "att"}[round%2]
		target := env.Keys[0].Pub
		parked, release := make(chan struct{}), make(chan struct{})
		var once sync.Once
		verifhook.Set(func(name string, keys [][]byte) error {
			if name == "store.Store.pre" && len(keys) > 0 && len(keys[0]) >= 48 && string(keys[0][:48]) == string(target) {
				first := false
				once.Do(func() { first = true })
				if first {
					close(parked)
					<-release
				}
			}
			return nil
		})
		type out struct {
			res core.Result
			sig []byte
		}
		done := make(chan out, 1)
		var prop *PropCase
		var att *AttCase
		go func() {
			if kind == "prop" {
				prop = mkProp(env.Keys[0], env.Names[0], 0, 0xaa)
				prop.Data.Slot = 500
				r, s := env.SignProp(ViaService, prop)
				done <- out{r, s}
			} else {
				att = mkAtt(env.Keys[0], env.Names[0], 0, 1, 0xaa)
				att.Data.Source.Epoch, att.Data.Target.Epoch = 500, 501
				r, s := env.SignAtt(ViaService, att)
				done <- out{r, s}
			}
		}()
		select {
		case <-parked:
		case o := <-done:
			// Never reached the write (refused earlier): nothing to learn.
			_ = o
			verifhook.Set(nil)
			env.Stack.Close()
			continue
		case <-time.After(20 * time.Second):
			fmt.Println("CHILD-INCONCLUSIVE request never reached its write")
			return 3
		}
		closeDone := make(chan struct{})
		go func() { _ = env.Stack.CloseRules(); close(closeDone) }()
		// Let the close get going (the delay varies from round to round), then let the request go on.
		time.Sleep(time.Duration(100+150*(round%7)) * time.Microsecond)
		close(release)
		var o out
		select {
		case o = <-done:
		case <-time.After(30 * time.Second):
			fmt.Println("CHILD-INCONCLUSIVE request parked at the write did not return after the store closed")
			return 3
		}
		<-closeDone
		verifhook.Set(nil)
		fmt.Printf("STAT close_race_rounds 1\n")
		fmt.Printf("DISTINCT %s released between read and write while the store closes -> %s signature=%v\n", kind, o.res, len(o.sig) > 0)
		if (len(o.sig) > 0) != (o.res == core.ResultSucceeded) {
			fmt.Printf("CHILD-VIOLATION state %s with signature length %d for a request caught by the closing store\n", o.res, len(o.sig))
		}
		if len(o.sig) > 0 {
			fmt.Printf("STAT close_race_signed 1\n")
			if err := env.Stack.Restart(); err != nil {
				fmt.Println("CHILD-INCONCLUSIVE cannot reopen:", err)
				return 3
			}
			st, err := env.Stack.ReadState(target)
			if err != nil {
				fmt.Println("CHILD-INCONCLUSIVE cannot read state:", err)
				return 3
			}
			if kind == "prop" && (!st.HasProp || st.Slot < 500) {
				fmt.Printf("CHILD-VIOLATION a proposal at slot 500 was signed while the store was closing, and after reopening the store holds %+v: the approval was never recorded\n", st)
			}
			if kind == "att" && (!st.HasAtt || st.Tgt < 501) {
				fmt.Printf("CHILD-VIOLATION an attestation 500->501 was signed while the store was closing, and after reopening the store holds %+v: the approval was never recorded\n", st)
			}
			// The conflicting twin.
			if kind == "prop" {
				tw := mkProp(env.Keys[0], env.Names[0], 0, 0xbb)
				tw.Data.Slot = 500
				if r, s := env.SignProp(ViaService, tw); r == core.ResultSucceeded || len(s) > 0 {
					fmt.Println("CHILD-VIOLATION after reopening, a second, different proposal at slot 500 was signed")
				}
			} else {
				tw := mkAtt(env.Keys[0], env.Names[0], 0, 1, 0xbb)
				tw.Data.Source.Epoch, tw.Data.Target.Epoch = 500, 501
				if r, s := env.SignAtt(ViaService, tw); r == core.ResultSucceeded || len(s) > 0 {
					fmt.Println("CHILD-VIOLATION after reopening, a second, different attestation with target 501 was signed")
				}
			}
		} else {
			fmt.Printf("STAT close_race_refused 1\n")
		}
		env.Stack.Close()
	}
	return 0
}
