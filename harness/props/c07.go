package props

import (
	"context"
	"fmt"
	"strings"
	"time"

	"verif/harness/evid"
	"verif/harness/oracle"
	"verif/harness/rig"

	"github.com/attestantio/dirk/core"
	"github.com/attestantio/dirk/services/checker"
	staticchecker "github.com/attestantio/dirk/services/checker/static"
	pb "github.com/wealdtech/eth2-signer-api/pb/v1"
	e2wtypes "github.com/wealdtech/go-eth2-wallet-types/v2"
)

var (
	c07Wallets  = []string{"Wallet1", "Wallet2", "Cold"}
	c07Accounts = []string{"acct1", "acct2", "val", "b"}
)

// C07 compares the real checker with the reference model over generated tables, and checks that the
// services carry out an operation only if the model allows it for the account actually resolved.
func C07(cfg Cfg) int {
	run := evid.New("C07", cfg.Tier, cfg.Seed, "exploration")
	run.Rule = "(A) seeded permission tables (1-3 clients x 1-5 ordered entries, wallet/account patterns from a grammar with literals, mixed case, alternation, own anchors, own (?i), classes, + and ?, empty account part; ordered operation lists over All/None/op/~op in mixed case) built with the real static checker and queried with names engineered around every pattern (exact, extended, prefixed, case-flipped, truncated, unrelated), every operation and configured/unknown/empty/nil clients: Check() must equal the reference model; " +
		"(B) for a sample of tables a real service stack over 3 wallets x 4 accounts: every operation through signer (5 kinds, by name and by key), lister, account manager, wallet manager; carried out => allowed for the resolved account, refused => slashing state and lock flags unchanged; distinct = (pattern shapes x op-list shape) and (name relation, operation, verdict) classes"
	run.Assume = []string{"reference model oracle.PermTable.Allowed transcribes the statement; Go regexp is used by both sides but anchoring/grouping is the model's own"}
	c07Checker(run, cfg)
	c07Services(run, cfg)
	c07Wire(run, cfg)
	return run.Finish()
}

func c07Checker(run *evid.Run, cfg Cfg) {
	r := cfg.Rand("c07a")
	tables := cfg.N(300, 10000)
	clients := []string{"client1", "client2", "Client3"}
	for t := 0; t < tables && run.NumViolations() < 5; t++ {
		g := genPermTable(r, clients[:1+r.Intn(3)], c07Wallets, c07Accounts)
		svc, err := staticchecker.New(context.Background(), staticchecker.WithPermissions(g.Dirk))
		if err != nil {
			run.Count("tables_rejected_by_checker", 1)
			continue
		}
		for s := range g.Shapes {
			run.Distinct("table-shape " + s)
		}
		wnames, wrels := namePool(r, c07Wallets)
		anames, arels := namePool(r, c07Accounts, true)
		anames, arels = append(anames, ""), append(arels, "wallet-only")
		for q := 0; q < 400; q++ {
			wi, ai := r.Intn(len(wnames)), r.Intn(len(anames))
			if r.Intn(2) == 0 {
				// Half of the queries use exact or case-flipped names, so that entries apply often.
				wi = 6*r.Intn(len(c07Wallets)) + 3*r.Intn(2)
				ai = 6*r.Intn(len(c07Accounts)) + 3*r.Intn(2)
			}
			op := Operations[r.Intn(len(Operations))]
			var creds *checker.Credentials
			clientClass := "configured"
			client := clients[r.Intn(len(clients))]
			switch r.Intn(12) {
			case 0:
				client, clientClass = "nobody", "unknown"
			case 1:
				client, clientClass = "", "empty"
			case 2:
				clientClass = "nil"
			case 3:
				client, clientClass = "CLIENT1", "case-variant"
			}
			if clientClass != "nil" {
				creds = &checker.Credentials{Client: client}
			} else {
				client = ""
			}
			name := wnames[wi]
			if anames[ai] != "" {
				name += "/" + anames[ai]
			}
			got := svc.Check(context.Background(), creds, name, op)
			want := g.Model.Allowed(client, wnames[wi], anames[ai], op)
			run.Eval(1)
			run.Distinct(fmt.Sprintf("query w:%s a:%s client:%s -> %v", wrels[wi], arels[ai], clientClass, got))
			if got {
				run.Count("checker_allowed", 1)
			} else {
				run.Count("checker_denied", 1)
			}
			if got != want {
				run.Violate(fmt.Sprintf("checker says %v but the permission rules say %v for client %q, account %q, operation %q", got, want, client, name, op),
					map[string]any{"table": g.Model, "client": client, "account": name, "operation": op})
				break
			}
		}
		if t == 0 {
			run.Sample(map[string]any{"table": g.Model})
		}
	}
}

type c07Acct struct {
	wallet, name string
	key          *rig.Key
}

func c07Services(run *evid.Run, cfg Cfg) {
	r := cfg.Rand("c07b")
	tables := cfg.N(20, 400)
	wallets := []string{"Wallet1", "Wallet10", "cold"}
	accts := []string{"acct1", "acct10", "VAL", "b"}
	for t := 0; t < tables && run.NumViolations() < 5; t++ {
		g := genPermTable(r, []string{"client1", "client2"}, c07Wallets, c07Accounts)
		env, err := NewEnv(run, cfg, "c07svc", rig.StackOpts{Permissions: g.Dirk})
		if err != nil {
			run.Count("service_tables_rejected", 1)
			continue
		}
		var all []c07Acct
		for wi, w := range wallets {
			for ai, a := range accts {
				k := rig.DetKey(fmt.Sprintf("c07-%d", t), wi*10+ai)
				env.Synth.Add(w, a, k, "pass", true)
				all = append(all, c07Acct{w, a, k})
			}
		}
		for _, client := range []string{"client1", "client2", "stranger"} {
			env.Client = client
			env.Creds = &checker.Credentials{RequestID: "r", Client: client, IP: "10.0.0.1"}
			for ai, a := range all {
				full := a.wallet + "/" + a.name
				before, _ := env.Stack.ReadState(a.key.Pub)
				for kind := 0; kind < 5; kind++ {
					addr := Addr(r.Intn(3))
					via := Via(r.Intn(2))
					env.Keys, env.Names = []*rig.Key{a.key, all[(ai+1)%len(all)].key}, []string{full, all[(ai+1)%len(all)].wallet + "/" + all[(ai+1)%len(all)].name}
					var res core.Result
					var op string
					switch kind {
					case 0:
						op = "Sign"
						c := wfGen(r, env, 0)
						c.Addr = addr
						res, _ = env.SignGen(via, c)
					case 1:
						op = "Sign"
						c0, c1 := wfGen(r, env, 0), wfGen(r, env, 1)
						c0.Addr = addr
						rs, _ := env.SignGens(via, []*GenCase{c0, c1})
						res = rs[0]
						if len(rs) > 1 && rs[1] == core.ResultSucceeded && !g.Model.Allowed(client, all[(ai+1)%len(all)].wallet, all[(ai+1)%len(all)].name, op) {
							run.Violate(fmt.Sprintf("multisign position 1 signed for %s although client %q is not allowed to Sign with it", env.Names[1], client), g.Model)
						}
					case 2:
						op = "Sign beacon attestation"
						c := wfAtt(r, env, 0)
						c.Addr = addr
						c.Data.Source.Epoch, c.Data.Target.Epoch = uint64(10*t+1), uint64(10*t+2+kind)
						res, _ = env.SignAtt(via, c)
					case 3:
						op = "Sign beacon attestation"
						c0, c1 := wfAtt(r, env, 0), wfAtt(r, env, 1)
						c0.Addr = addr
						c0.Data.Source.Epoch, c0.Data.Target.Epoch = uint64(10*t+1), uint64(10*t+2+kind)
						rs, _ := env.SignAtts(via, []*AttCase{c0, c1})
						res = rs[0]
					case 4:
						op = "Sign beacon proposal"
						c := wfProp(r, env, 0)
						c.Addr = addr
						res, _ = env.SignProp(via, c)
					}
					allowed := g.Model.Allowed(client, a.wallet, a.name, op)
					run.Eval(1)
					run.Distinct(fmt.Sprintf("service signer kind=%d addr=%s allowed=%v -> %s", kind, addrName(addr), allowed, res))
					if res == core.ResultSucceeded && !allowed {
						run.Violate(fmt.Sprintf("%s carried out for %s (addressed by %s) although client %q is not allowed to", op, full, addrName(addr), client), g.Model)
					}
					if res == core.ResultSucceeded {
						run.Count("service_ops_carried_out", 1)
					} else {
						run.Count("service_ops_refused", 1)
					}
					if !allowed {
						after, _ := env.Stack.ReadState(a.key.Pub)
						if after != before {
							run.Violate(fmt.Sprintf("refused %s for %s changed the stored slashing-protection state %+v -> %+v", op, full, before, after), g.Model)
						}
					} else {
						before, _ = env.Stack.ReadState(a.key.Pub)
					}
				}
				// Account lock / unlock through the account manager is exercised when a process service exists (see c07Managers).
			}
			// Lister: every returned account must be allowed.
			paths := []string{"Wallet1", "Wallet10", "cold", "Wallet1/acct.*"}
			lres, laccts := env.Stack.Lister.ListAccounts(context.Background(), env.Creds, paths)
			if lres == core.ResultSucceeded {
				for _, la := range laccts {
					w := la.(e2wtypes.AccountWalletProvider).Wallet().Name()
					run.Eval(1)
					if !g.Model.Allowed(client, w, la.Name(), "Access account") {
						run.Violate(fmt.Sprintf("listing returned %s/%s although client %q may not access it", w, la.Name(), client), g.Model)
					}
					run.Count("listed_accounts_checked", 1)
				}
			}
			// Wallet manager.
			for wi, w := range wallets {
				for oi, op := range []string{"Lock wallet", "Unlock wallet", "Lock wallet"} {
					wl, _ := env.Synth.FetchWallet(context.Background(), w)
					wasUnlocked, _ := wl.(e2wtypes.WalletLocker).IsUnlocked(context.Background())
					// The wallet may be named with an account suffix: it still resolves to the wallet, and the
					// decision has to be taken on what is resolved.
					req := w
					if (wi+oi+t)%2 == 1 {
						req = w + "/" + accts[(wi+oi)%len(accts)]
					}
					var res core.Result
					if op == "Lock wallet" {
						res, _ = env.Stack.WalletMgr.Lock(context.Background(), env.Creds, req)
					} else {
						res, _ = env.Stack.WalletMgr.Unlock(context.Background(), env.Creds, req, []byte("pass"))
					}
					allowed := g.Model.Allowed(client, w, "", op)
					nowUnlocked, _ := wl.(e2wtypes.WalletLocker).IsUnlocked(context.Background())
					run.Eval(1)
					run.Distinct(fmt.Sprintf("service walletmanager %s allowed=%v -> %s", op, allowed, res))
					if res == core.ResultSucceeded && !allowed {
						run.Violate(fmt.Sprintf("%s carried out on wallet %s (named as %q) although client %q is not allowed to", op, w, req, client), g.Model)
					}
					if !allowed && nowUnlocked != wasUnlocked {
						run.Violate(fmt.Sprintf("refused %s on %s changed the wallet's lock state", op, w), g.Model)
					}
				}
			}
		}
		env.Stack.Close()
		c07Managers(run, cfg, g, t)
	}
}

// c07Managers exercises the account manager (lock, unlock) and account creation through the real process
// service and the handlers on a one-instance cluster with real wallets, for the given table.
func c07Managers(run *evid.Run, cfg Cfg, g *PermGen, t int) {
	c, err := rig.NewCluster(rig.ClusterOpts{Dir: cfg.Dir(fmt.Sprintf("c07m-%d", t%4)), IDs: []uint64{1}, Permissions: g.Dirk,
		NDWallets: map[string][]string{"Wallet1": {"acct1"}, "Cold": {"b"}}})
	if err != nil {
		run.Count("manager_tables_rejected", 1)
		return
	}
	defer c.Close()
	inst := c.Inst[1]
	ctx := context.Background()
	for _, client := range []string{"client1", "client2", "stranger"} {
		creds := &checker.Credentials{RequestID: "r", Client: client, IP: "10.0.0.1"}
		for _, full := range []string{"Wallet1/acct1", "Cold/b"} {
			wname, aname, _ := strings.Cut(full, "/")
			_, acct, err := inst.Stack.Fetcher.FetchAccount(ctx, full)
			if err != nil {
				run.Inconclusive("cannot fetch " + full)
				return
			}
			lk := acct.(e2wtypes.AccountLocker)
			for _, op := range []string{"Unlock account", "Lock account", "Unlock account"} {
				was, _ := lk.IsUnlocked(ctx)
				var res core.Result
				viaH := (len(client)+len(op)+t)%2 == 0
				if viaH {
					if op == "Lock account" {
						r, err := inst.Stack.AccountH.Lock(rig.HandlerCtx(client, "10.0.0.1"), &pb.LockAccountRequest{Account: full})
						if err == nil {
							res = resFromPB(r.GetState())
						}
					} else {
						r, err := inst.Stack.AccountH.Unlock(rig.HandlerCtx(client, "10.0.0.1"), &pb.UnlockAccountRequest{Account: full, Passphrase: []byte("pass")})
						if err == nil {
							res = resFromPB(r.GetState())
						}
					}
				} else if op == "Lock account" {
					res, _ = inst.Stack.AccountMgr.Lock(ctx, creds, full)
				} else {
					res, _ = inst.Stack.AccountMgr.Unlock(ctx, creds, full, []byte("pass"))
				}
				now, _ := lk.IsUnlocked(ctx)
				allowed := g.Model.Allowed(client, wname, aname, op)
				run.Eval(1)
				run.Distinct(fmt.Sprintf("service accountmanager %s handler=%v allowed=%v -> %s", op, viaH, allowed, res))
				if res == core.ResultSucceeded && !allowed {
					run.Violate(fmt.Sprintf("%s carried out on %s although client %q is not allowed to", op, full, client), g.Model)
				}
				if !allowed && now != was {
					run.Violate(fmt.Sprintf("refused %s on %s changed the account's lock state", op, full), g.Model)
				}
				run.Count("manager_ops", 1)
			}
		}
		// Account creation.
		for _, wname := range []string{"Wallet1", "Cold"} {
			name := fmt.Sprintf("%s/new-%s-%d", wname, client, t)
			allowed := g.Model.Allowed(client, wname, strings.SplitN(name, "/", 2)[1], "Create account")
			var gerr error
			if t%2 == 0 {
				_, _, gerr = inst.Stack.Process.OnGenerate(ctx, creds, name, []byte("pass"), 1, 1)
			} else {
				r, err := inst.Stack.AccountH.Generate(rig.HandlerCtx(client, "10.0.0.1"), &pb.GenerateRequest{Account: name, Passphrase: []byte("pass"), Participants: 1, SigningThreshold: 1})
				if err != nil || r.GetState() != pb.ResponseState_SUCCEEDED {
					gerr = fmt.Errorf("state %v err %v", r.GetState(), err)
				}
			}
			_, _, ferr := inst.Stack.Fetcher.FetchAccount(ctx, name)
			exists := ferr == nil
			run.Eval(1)
			run.Distinct(fmt.Sprintf("service create-account allowed=%v ok=%v", allowed, gerr == nil))
			if (gerr == nil || exists) && !allowed {
				run.Violate(fmt.Sprintf("account %s was created although client %q is not allowed to create it", name, client), g.Model)
			}
			if gerr == nil {
				run.Count("accounts_created", 1)
			}
			run.Count("manager_ops", 1)
		}
	}
}

// permutations of small slices.
func permutations(n int) [][]int {
	if n == 0 {
		return [][]int{{}}
	}
	var out [][]int
	for _, p := range permutations(n - 1) {
		for i := 0; i <= len(p); i++ {
			q := append(append(append([]int{}, p[:i]...), n-1), p[i:]...)
			out = append(out, q)
		}
	}
	return out
}

// allowedInAnyOrder evaluates the model under every ordering of the client's entries (the daemon's
// configuration is a YAML mapping, so the order in which main.go hands the entries to the checker is not defined).
func allowedInAnyOrder(t oracle.PermTable, client, wallet, account, op string) (some, all bool) {
	entries := t[client]
	if len(entries) == 0 {
		return false, false
	}
	all = true
	for _, p := range permutations(len(entries)) {
		re := make([]oracle.PermEntry, len(entries))
		for i, j := range p {
			re[i] = entries[j]
		}
		if (oracle.PermTable{client: re}).Allowed(client, wallet, account, op) {
			some = true
		} else {
			all = false
		}
	}
	return some, all
}

// c07Wire mounts generated tables in the real daemon's configuration file (main.go's own parsing) and checks
// over TLS/gRPC that an operation the table allows under NO ordering of the entries is never carried out.
func c07Wire(run *evid.Run, cfg Cfg) {
	r := cfg.Rand("c07-wire")
	ca, err := rig.NewCA("verif-ca")
	if err != nil {
		run.Inconclusive(err.Error())
		return
	}
	wallets := map[string][]string{"Wallet1": {"acct1", "acct2"}, "Wallet2": {"acct1", "val"}, "Cold": {"b", "acct2"}}
	for round := 0; round < cfg.N(3, 30) && run.NumViolations() < 5; round++ {
		g := genPermTable(r, []string{"client1", "client2"}, c07Wallets, c07Accounts)
		perms := map[string]map[string][]string{}
		model := oracle.PermTable{}
		for c, es := range g.Model {
			perms[c] = map[string][]string{}
			for _, e := range es {
				if _, dup := perms[c][strings.ToLower(e.Path)]; dup || len(model[c]) >= 4 {
					continue // a YAML mapping cannot hold the same path twice; keep the permutation count small
				}
				perms[c][strings.ToLower(e.Path)] = e.Ops
				model[c] = append(model[c], e)
			}
		}
		port := rig.FreePort("127.0.0.1")
		d, err := rig.PrepareDaemon(rig.DaemonOpts{Dir: cfg.Dir(fmt.Sprintf("c07-wire-%d", round%3)), ID: 1, IP: "127.0.0.1", Port: port, CA: ca,
			Peers: map[uint64]string{1: fmt.Sprintf("127.0.0.1:%d", port)}, Permissions: perms, NDWallets: wallets})
		if err != nil {
			run.Inconclusive(err.Error())
			return
		}
		if err := d.Start(); err != nil {
			// A table the daemon refuses to start with (e.g. an expression invalid in its anchored form) is not judged.
			run.Count("wire_tables_rejected_by_daemon", 1)
			d.Kill()
			continue
		}
		epoch := uint64(10)
		for _, client := range []string{"client1", "client2", "stranger"} {
			crt, _ := ca.Issue(rig.CertOpts{CN: client})
			conn, err := rig.Dial(d.Addr, rig.ClientTLS(ca, crt.TLS), "")
			if err != nil {
				continue
			}
			signer, lister := pb.NewSignerClient(conn), pb.NewListerClient(conn)
			for w, as := range wallets {
				for _, a := range as {
					full := w + "/" + a
					epoch += 2
					ctx, cancel := context.WithTimeout(context.Background(), 20*time.Second)
					r1, e1 := signer.Sign(ctx, &pb.SignRequest{Id: &pb.SignRequest_Account{Account: full}, Data: Root32(1), Domain: Dom([]byte{9, 0, 0, 0}, 1)})
					r2, e2 := signer.SignBeaconAttestation(ctx, &pb.SignBeaconAttestationRequest{Id: &pb.SignBeaconAttestationRequest_Account{Account: full}, Domain: Dom(DomainAttester, 0),
						Data: &pb.AttestationData{Slot: 1, BeaconBlockRoot: Root32(3), Source: &pb.Checkpoint{Epoch: epoch, Root: Root32(1)}, Target: &pb.Checkpoint{Epoch: epoch + 1, Root: Root32(2)}}})
					r3, e3 := signer.SignBeaconProposal(ctx, &pb.SignBeaconProposalRequest{Id: &pb.SignBeaconProposalRequest_Account{Account: full}, Domain: Dom(DomainProposer, 0),
						Data: &pb.BeaconBlockHeader{Slot: epoch, ParentRoot: Root32(3), StateRoot: Root32(4), BodyRoot: Root32(5)}})
					cancel()
					for i, x := range []struct {
						op string
						ok bool
					}{{"Sign", e1 == nil && r1.GetState() == pb.ResponseState_SUCCEEDED}, {"Sign beacon attestation", e2 == nil && r2.GetState() == pb.ResponseState_SUCCEEDED}, {"Sign beacon proposal", e3 == nil && r3.GetState() == pb.ResponseState_SUCCEEDED}} {
						some, all := allowedInAnyOrder(model, client, w, a, x.op)
						run.Eval(1)
						run.Distinct(fmt.Sprintf("wire op=%d allowed-some=%v allowed-all=%v carried-out=%v", i, some, all, x.ok))
						if x.ok && !some {
							run.Violate(fmt.Sprintf("wire: %s carried out for %s although the configured table allows client %q to do so under no ordering of its entries", x.op, full, client), map[string]any{"table": model, "client": client})
						}
						if x.ok {
							run.Count("wire_ops_carried_out", 1)
						} else {
							run.Count("wire_ops_refused", 1)
						}
					}
				}
			}
			ctx, cancel := context.WithTimeout(context.Background(), 20*time.Second)
			lr, lerr := lister.ListAccounts(ctx, &pb.ListAccountsRequest{Paths: []string{"Wallet1", "Wallet2", "Cold"}})
			cancel()
			if lerr == nil {
				for _, acc := range lr.GetAccounts() {
					w, a, _ := strings.Cut(acc.GetName(), "/")
					if some, _ := allowedInAnyOrder(model, client, w, a, "Access account"); !some {
						run.Violate(fmt.Sprintf("wire: listing returned %s although client %q may access it under no ordering of its entries", acc.GetName(), client), map[string]any{"table": model})
					}
					run.Count("wire_listed_accounts_checked", 1)
				}
			}
			conn.Close()
		}
		d.Kill()
	}
	if run.Get("wire_ops_carried_out") == 0 || run.Get("wire_ops_refused") == 0 {
		run.Inconclusive("the wire slice saw no carried-out or no refused operation")
	}
}
