// Package props holds one workload + monitor per property.
package props

import (
	"context"
	"fmt"
	"math/rand"
	"os"
	"path/filepath"
	"sync"

	"verif/harness/evid"
	"verif/harness/oracle"
	"verif/harness/rig"

	"github.com/attestantio/dirk/core"
	"github.com/attestantio/dirk/rules"
	"github.com/attestantio/dirk/services/checker"
	pb "github.com/wealdtech/eth2-signer-api/pb/v1"
	"google.golang.org/protobuf/proto"
)

// Cfg is the per-run configuration.
type Cfg struct {
	Tier string
	Seed int64
	Work string // scratch directory for this run (wiped by the driver)
	Args []string
}

// Children are the child-process roles (crash children, daemons' drivers, ...).
var Children = map[string]func(Cfg) int{}

func (c Cfg) Thorough() bool { return c.Tier == "thorough" }

// N picks the quick or thorough count.
func (c Cfg) N(quick, thorough int) int {
	if c.Thorough() {
		return thorough
	}
	return quick
}

func (c Cfg) Rand(stream string) *rand.Rand {
	var h int64
	for _, ch := range stream {
		h = h*131 + int64(ch)
	}
	return rand.New(rand.NewSource(c.Seed*1000003 + h))
}

func (c Cfg) Dir(name string) string {
	d := filepath.Join(c.Work, name)
	_ = os.RemoveAll(d)
	_ = os.MkdirAll(d, 0o755)
	return d
}

var (
	DomainAttester = []byte{1, 0, 0, 0}
	DomainProposer = []byte{0, 0, 0, 0}
	DomainExit     = []byte{4, 0, 0, 0}
)

// Dom builds a 32-byte domain from a type prefix and a suffix fill byte.
func Dom(prefix []byte, fill byte) []byte {
	d := make([]byte, 32)
	copy(d, prefix)
	for i := 4; i < 32; i++ {
		d[i] = fill
	}
	return d
}

// Root32 builds a 32-byte root from a fill byte.
func Root32(fill byte) []byte {
	r := make([]byte, 32)
	for i := range r {
		r[i] = fill
	}
	return r
}

// Addr says how a request addresses its account.
type Addr int

const (
	ByName Addr = iota
	ByKey
	// ByLongKey addresses the account by its public key followed by extra bytes (Dirk's fetcher looks
	// accounts up by the first 48 bytes, so this resolves to the same account).
	ByLongKey
)

// RandAddr draws an addressing mode: mostly by name or by key, sometimes by an over-long key.
func RandAddr(r *rand.Rand) Addr {
	switch p := r.Intn(20); {
	case p < 9:
		return ByName
	case p < 18:
		return ByKey
	}
	return ByLongKey
}

// AttCase is one attestation signing request.
type AttCase struct {
	Ctx  context.Context // optional request context (nil = background)
	Key  *rig.Key
	Name string // wallet/account
	Addr Addr
	Data *rules.SignBeaconAttestationData
}

func (c *AttCase) DataRoot() [32]byte {
	d := c.Data
	return oracle.AttestationDataRoot(d.Slot, d.CommitteeIndex, d.BeaconBlockRoot, d.Source.Epoch, d.Source.Root, d.Target.Epoch, d.Target.Root)
}
func (c *AttCase) SigningRoot() [32]byte { return oracle.SigningRoot(c.DataRoot(), c.Data.Domain) }

// PropCase is one proposal signing request.
type PropCase struct {
	Ctx  context.Context
	Key  *rig.Key
	Name string
	Addr Addr
	Data *rules.SignBeaconProposalData
}

func (c *PropCase) DataRoot() [32]byte {
	d := c.Data
	return oracle.BlockHeaderRoot(d.Slot, d.ProposerIndex, d.ParentRoot, d.StateRoot, d.BodyRoot)
}
func (c *PropCase) SigningRoot() [32]byte { return oracle.SigningRoot(c.DataRoot(), c.Data.Domain) }

// GenCase is one generic signing request.
type GenCase struct {
	Key  *rig.Key
	Name string
	Addr Addr
	Data *rules.SignData
}

func (c *GenCase) SigningRoot() [32]byte {
	return oracle.SigningRoot([32]byte(b32(c.Data.Data)), c.Data.Domain)
}

func orBackground(ctx context.Context) context.Context {
	if ctx == nil {
		return context.Background()
	}
	return ctx
}

func b32(b []byte) [32]byte {
	var r [32]byte
	copy(r[:], b)
	return r
}

func addrOf(name string, key *rig.Key, a Addr) (string, []byte) {
	switch a {
	case ByKey:
		return "", key.Pub
	case ByLongKey:
		return "", LongKey(key)
	}
	return name, nil
}

// LongKey is the public key followed by two bytes derived from it.
func LongKey(key *rig.Key) []byte {
	return append(append([]byte{}, key.Pub...), key.Pub[0]^0x5a, key.Pub[1])
}

// Via selects the boundary a request is issued through.
type Via int

const (
	ViaService Via = iota // signer.Service
	ViaHandler            // gRPC handler object after a protobuf wire round trip
)

// Env is a signing environment: one stack over synthetic accounts, plus the monitors
// shared by the signing properties.
type Env struct {
	Wire    *WireRig // non-nil: requests can be issued with ViaWire to a real daemon
	Run     *evid.Run
	Stack   *rig.Stack
	Synth   *rig.SynthFetcher
	Probes  *rig.Probes
	Creds   *checker.Credentials
	Client  string
	IP      string
	Slash   *oracle.Slash
	Keys    []*rig.Key
	Names   []string
	nextKey int
	family  string
	profile string
	wm      []oracle.WM // the harness's own record of what was signed for the current keys (generator guidance only)

	mu      sync.Mutex
	pending map[[80]byte]pendingReq // (public key, signing root) -> request, for the record-before-sign monitor

	// RecordBeforeSign enables the C03 monitor 2 at Sign entry.
	RecordBeforeSign bool
	signChecks       int
}

type pendingReq struct {
	kind     string // "att", "prop", "gen"
	pub      [48]byte
	src, tgt uint64
	slot     uint64
}

// NewEnv builds a stack on a fresh storage directory.
func NewEnv(run *evid.Run, cfg Cfg, name string, o rig.StackOpts) (*Env, error) {
	e := &Env{Run: run, Synth: rig.NewSynthFetcher(), Probes: &rig.Probes{}, Slash: oracle.NewSlash(),
		Client: "client1", IP: "10.0.0.1", pending: map[[80]byte]pendingReq{}, family: name}
	e.Creds = &checker.Credentials{RequestID: "r", Client: e.Client, IP: e.IP}
	o.StorageDir = cfg.Dir(name + "-storage")
	o.Fetcher = &rig.MonFetcher{Inner: e.Synth, Probes: e.Probes}
	e.Probes.BeforeSign = e.beforeSign
	st, err := rig.NewStack(o)
	if err != nil {
		return nil, err
	}
	e.Stack = st
	return e, nil
}

// FreshKeys adds n new unlocked accounts W/k<i> and makes them the current key set.
func (e *Env) FreshKeys(n int) {
	e.Keys = e.Keys[:0]
	e.Names = e.Names[:0]
	for i := 0; i < n; i++ {
		k := rig.DetKey(e.family, e.nextKey)
		name := fmt.Sprintf("k%d", e.nextKey)
		e.nextKey++
		e.Synth.Add("W", name, k, "pass", true)
		e.Keys = append(e.Keys, k)
		e.Names = append(e.Names, "W/"+name)
	}
}

func pendKey(pub [48]byte, root []byte) [80]byte {
	var k [80]byte
	copy(k[:48], pub[:])
	copy(k[48:], root)
	return k
}

func (e *Env) register(root [32]byte, p pendingReq) {
	e.mu.Lock()
	e.pending[pendKey(p.pub, root[:])] = p
	e.mu.Unlock()
}

// beforeSign is the record-before-sign monitor (C03 monitor 2): when the account is asked
// to sign, the slashing-protection store must already cover the request being signed.
func (e *Env) beforeSign(pub [48]byte, root []byte) error {
	if !e.RecordBeforeSign {
		return nil
	}
	e.mu.Lock()
	p, ok := e.pending[pendKey(pub, root)]
	e.signChecks++
	e.mu.Unlock()
	if !ok {
		e.Run.Violate(fmt.Sprintf("account %x asked to sign root %x that corresponds to no submitted request", pub[:6], root), nil)
		return nil
	}
	if p.kind == "gen" {
		return nil
	}
	st, err := e.Stack.ReadState(p.pub[:])
	if err != nil {
		e.Run.Count("read_errors_in_sign", 1)
		return nil
	}
	switch p.kind {
	case "att":
		if !st.HasAtt || st.Tgt < 0 || uint64(st.Tgt) < p.tgt || st.Src < 0 || uint64(st.Src) < p.src {
			e.Run.Violate(fmt.Sprintf("signing attestation %d->%d for key %x while the store holds %+v: approval not recorded before signing", p.src, p.tgt, pub[:6], st),
				map[string]any{"kind": "att", "source": p.src, "target": p.tgt, "store": st})
		}
	case "prop":
		if !st.HasProp || st.Slot < 0 || uint64(st.Slot) < p.slot {
			e.Run.Violate(fmt.Sprintf("signing proposal slot %d for key %x while the store holds %+v: approval not recorded before signing", p.slot, pub[:6], st),
				map[string]any{"kind": "prop", "slot": p.slot, "store": st})
		}
	}
	return nil
}

// SignChecks returns how often the record-before-sign monitor ran.
func (e *Env) SignChecks() int {
	e.mu.Lock()
	defer e.mu.Unlock()
	return e.signChecks
}

func resFromPB(s pb.ResponseState) core.Result {
	switch s {
	case pb.ResponseState_SUCCEEDED:
		return core.ResultSucceeded
	case pb.ResponseState_DENIED:
		return core.ResultDenied
	case pb.ResponseState_FAILED:
		return core.ResultFailed
	}
	return core.ResultUnknown
}

func roundTrip[T proto.Message](in T, out T) T {
	b, err := proto.Marshal(in)
	if err != nil {
		panic(err)
	}
	if err := proto.Unmarshal(b, out); err != nil {
		panic(err)
	}
	return out
}

func pbAttData(d *rules.SignBeaconAttestationData) *pb.AttestationData {
	return &pb.AttestationData{
		Slot: d.Slot, CommitteeIndex: d.CommitteeIndex, BeaconBlockRoot: d.BeaconBlockRoot,
		Source: &pb.Checkpoint{Epoch: d.Source.Epoch, Root: d.Source.Root},
		Target: &pb.Checkpoint{Epoch: d.Target.Epoch, Root: d.Target.Root},
	}
}

func pbAttReq(c *AttCase) *pb.SignBeaconAttestationRequest {
	r := &pb.SignBeaconAttestationRequest{Domain: c.Data.Domain, Data: pbAttData(c.Data)}
	if c.Addr != ByName {
		_, k := addrOf(c.Name, c.Key, c.Addr)
		r.Id = &pb.SignBeaconAttestationRequest_PublicKey{PublicKey: k}
	} else {
		r.Id = &pb.SignBeaconAttestationRequest_Account{Account: c.Name}
	}
	return r
}

// SignAtt issues one attestation request.
func (e *Env) SignAtt(via Via, c *AttCase) (core.Result, []byte) {
	if via == ViaWire {
		return e.wireAtt(c)
	}
	e.register(c.SigningRoot(), pendingReq{kind: "att", pub: c.Key.Pub48(), src: c.Data.Source.Epoch, tgt: c.Data.Target.Epoch})
	if via == ViaHandler {
		req := roundTrip(pbAttReq(c), &pb.SignBeaconAttestationRequest{})
		res, err := e.Stack.SignerH.SignBeaconAttestation(rig.HandlerCtx(e.Client, e.IP), req)
		if err != nil {
			return core.ResultFailed, nil
		}
		res = roundTrip(res, &pb.SignResponse{})
		return resFromPB(res.GetState()), res.GetSignature()
	}
	name, key := addrOf(c.Name, c.Key, c.Addr)
	return e.Stack.Signer.SignBeaconAttestation(orBackground(c.Ctx), e.Creds, name, key, c.Data)
}

// SignAtts issues a batch of attestation requests.
func (e *Env) SignAtts(via Via, cs []*AttCase) ([]core.Result, [][]byte) {
	if via == ViaWire {
		return e.wireAtts(cs)
	}
	for _, c := range cs {
		e.register(c.SigningRoot(), pendingReq{kind: "att", pub: c.Key.Pub48(), src: c.Data.Source.Epoch, tgt: c.Data.Target.Epoch})
	}
	if via == ViaHandler {
		req := &pb.SignBeaconAttestationsRequest{}
		for _, c := range cs {
			req.Requests = append(req.Requests, pbAttReq(c))
		}
		req = roundTrip(req, &pb.SignBeaconAttestationsRequest{})
		res, err := e.Stack.SignerH.SignBeaconAttestations(rig.HandlerCtx(e.Client, e.IP), req)
		if err != nil {
			return []core.Result{core.ResultFailed}, nil
		}
		res = roundTrip(res, &pb.MultisignResponse{})
		rs := make([]core.Result, len(res.GetResponses()))
		sigs := make([][]byte, len(res.GetResponses()))
		for i, r := range res.GetResponses() {
			rs[i] = resFromPB(r.GetState())
			sigs[i] = r.GetSignature()
		}
		return rs, sigs
	}
	names := make([]string, len(cs))
	keys := make([][]byte, len(cs))
	data := make([]*rules.SignBeaconAttestationData, len(cs))
	for i, c := range cs {
		names[i], keys[i] = addrOf(c.Name, c.Key, c.Addr)
		data[i] = c.Data
	}
	return e.Stack.Signer.SignBeaconAttestations(orBackground(cs[0].Ctx), e.Creds, names, keys, data)
}

// SignProp issues one proposal request.
func (e *Env) SignProp(via Via, c *PropCase) (core.Result, []byte) {
	if via == ViaWire {
		return e.wireProp(c)
	}
	e.register(c.SigningRoot(), pendingReq{kind: "prop", pub: c.Key.Pub48(), slot: c.Data.Slot})
	if via == ViaHandler {
		req := &pb.SignBeaconProposalRequest{Domain: c.Data.Domain, Data: &pb.BeaconBlockHeader{
			Slot: c.Data.Slot, ProposerIndex: c.Data.ProposerIndex, ParentRoot: c.Data.ParentRoot, StateRoot: c.Data.StateRoot, BodyRoot: c.Data.BodyRoot}}
		if c.Addr != ByName {
			_, k := addrOf(c.Name, c.Key, c.Addr)
			req.Id = &pb.SignBeaconProposalRequest_PublicKey{PublicKey: k}
		} else {
			req.Id = &pb.SignBeaconProposalRequest_Account{Account: c.Name}
		}
		req = roundTrip(req, &pb.SignBeaconProposalRequest{})
		res, err := e.Stack.SignerH.SignBeaconProposal(rig.HandlerCtx(e.Client, e.IP), req)
		if err != nil {
			return core.ResultFailed, nil
		}
		res = roundTrip(res, &pb.SignResponse{})
		return resFromPB(res.GetState()), res.GetSignature()
	}
	name, key := addrOf(c.Name, c.Key, c.Addr)
	return e.Stack.Signer.SignBeaconProposal(orBackground(c.Ctx), e.Creds, name, key, c.Data)
}

func pbGenReq(c *GenCase) *pb.SignRequest {
	r := &pb.SignRequest{Domain: c.Data.Domain, Data: c.Data.Data}
	if c.Addr != ByName {
		_, k := addrOf(c.Name, c.Key, c.Addr)
		r.Id = &pb.SignRequest_PublicKey{PublicKey: k}
	} else {
		r.Id = &pb.SignRequest_Account{Account: c.Name}
	}
	return r
}

// SignGen issues one generic request.
func (e *Env) SignGen(via Via, c *GenCase) (core.Result, []byte) {
	if via == ViaWire {
		return e.wireGen(c)
	}
	e.register(c.SigningRoot(), pendingReq{kind: "gen", pub: c.Key.Pub48()})
	if via == ViaHandler {
		req := roundTrip(pbGenReq(c), &pb.SignRequest{})
		res, err := e.Stack.SignerH.Sign(rig.HandlerCtx(e.Client, e.IP), req)
		if err != nil {
			return core.ResultFailed, nil
		}
		res = roundTrip(res, &pb.SignResponse{})
		return resFromPB(res.GetState()), res.GetSignature()
	}
	name, key := addrOf(c.Name, c.Key, c.Addr)
	return e.Stack.Signer.SignGeneric(context.Background(), e.Creds, name, key, c.Data)
}

// SignGens issues a multisign request.
func (e *Env) SignGens(via Via, cs []*GenCase) ([]core.Result, [][]byte) {
	if via == ViaWire {
		return e.wireGens(cs)
	}
	for _, c := range cs {
		e.register(c.SigningRoot(), pendingReq{kind: "gen", pub: c.Key.Pub48()})
	}
	if via == ViaHandler {
		req := &pb.MultisignRequest{}
		for _, c := range cs {
			req.Requests = append(req.Requests, pbGenReq(c))
		}
		req = roundTrip(req, &pb.MultisignRequest{})
		res, err := e.Stack.SignerH.Multisign(rig.HandlerCtx(e.Client, e.IP), req)
		if err != nil {
			return []core.Result{core.ResultFailed}, nil
		}
		res = roundTrip(res, &pb.MultisignResponse{})
		rs := make([]core.Result, len(res.GetResponses()))
		sigs := make([][]byte, len(res.GetResponses()))
		for i, r := range res.GetResponses() {
			rs[i] = resFromPB(r.GetState())
			sigs[i] = r.GetSignature()
		}
		return rs, sigs
	}
	names := make([]string, len(cs))
	keys := make([][]byte, len(cs))
	data := make([]*rules.SignData, len(cs))
	for i, c := range cs {
		names[i], keys[i] = addrOf(c.Name, c.Key, c.Addr)
		data[i] = c.Data
	}
	return e.Stack.Signer.Multisign(context.Background(), e.Creds, names, keys, data)
}
