package props

import (
	"context"
	"fmt"
	"math/rand"
	"os"
	"runtime"
	"strings"
	"sync"
	"sync/atomic"
	"time"

	"verif/harness/evid"
	"verif/harness/oracle"
	"verif/harness/rig"

	"github.com/anishathalye/porcupine"
	"github.com/attestantio/dirk/core"
	"github.com/attestantio/dirk/rules"
	"github.com/attestantio/dirk/services/ruler"
	"github.com/attestantio/dirk/util/verifhook"
)

const c04Keys = 3

// kst is the stored state of one key in the linearizability model (-1 = nothing signed).
type kst struct{ Src, Tgt, Slot int8 }

type c04State [c04Keys]kst

type c04Entry struct {
	K        int
	Src, Tgt int8 // attestation
	Slot     int8 // proposal
}

type c04In struct {
	Kind    string // "att" (single path), "atts" (batch path), "prop", "read"
	Entries []c04Entry
}

type c04Out struct {
	Verdicts []core.Result
	Read     c04State
}

// learner obtains Dirk's own sequential semantics by running the real signer single-threaded on
// fresh keys whose state was imported: (path, key state, entry) -> (verdict, new key state).
type learner struct {
	mu    sync.Mutex
	run   *evid.Run
	env   *Env
	memo  map[string]learned
	count int
}

type learned struct {
	verdict core.Result
	next    kst
}

func newLearner(run *evid.Run, cfg Cfg, name string) (*learner, error) {
	env, err := NewEnv(run, cfg, name, rig.StackOpts{})
	if err != nil {
		return nil, err
	}
	return &learner{run: run, env: env, memo: map[string]learned{}}, nil
}

func mkAtt(key *rig.Key, name string, src, tgt int8, rootFill byte) *AttCase {
	return &AttCase{Key: key, Name: name, Addr: ByName, Data: &rules.SignBeaconAttestationData{
		Domain: Dom(DomainAttester, 0), Slot: uint64(tgt) * 32, CommitteeIndex: 1, BeaconBlockRoot: Root32(rootFill),
		Source: &rules.Checkpoint{Epoch: uint64(src), Root: Root32(1)}, Target: &rules.Checkpoint{Epoch: uint64(tgt), Root: Root32(2)}}}
}

func mkProp(key *rig.Key, name string, slot int8, rootFill byte) *PropCase {
	return &PropCase{Key: key, Name: name, Addr: ByName, Data: &rules.SignBeaconProposalData{
		Domain: Dom(DomainProposer, 0), Slot: uint64(slot), ProposerIndex: 1, ParentRoot: Root32(3), StateRoot: Root32(4), BodyRoot: Root32(rootFill)}}
}

func (l *learner) lookup(path string, st kst, e c04Entry) learned {
	key := fmt.Sprintf("%s|%d,%d,%d|%d,%d,%d", path, st.Src, st.Tgt, st.Slot, e.Src, e.Tgt, e.Slot)
	l.mu.Lock()
	defer l.mu.Unlock()
	if v, ok := l.memo[key]; ok {
		return v
	}
	env := l.env
	env.FreshKeys(2)
	k := env.Keys[0]
	if st.Src != -1 || st.Tgt != -1 || st.Slot != -1 {
		err := env.Stack.StdRules.ImportSlashingProtection(context.Background(), map[[48]byte]*rules.SlashingProtection{
			k.Pub48(): {PubKey: k.Pub, HighestProposedSlot: int64(st.Slot), HighestAttestedSourceEpoch: int64(st.Src), HighestAttestedTargetEpoch: int64(st.Tgt)}})
		if err != nil {
			panic(err)
		}
	}
	var v core.Result
	answered := make(chan struct{})
	go func() {
		defer close(answered)
		switch path {
		case "att":
			v, _ = env.SignAtt(ViaService, mkAtt(k, env.Names[0], e.Src, e.Tgt, 0xaa))
		case "atts":
			res, _ := env.SignAtts(ViaService, []*AttCase{mkAtt(k, env.Names[0], e.Src, e.Tgt, 0xaa), mkAtt(env.Keys[1], env.Names[1], 0, 1, 0xaa)})
			v = res[0]
		case "prop":
			v, _ = env.SignProp(ViaService, mkProp(k, env.Names[0], e.Slot, 0xaa))
		}
	}()
	select {
	case <-answered:
	case <-time.After(60 * time.Second):
		// The reference itself - ONE request processed alone - does not come back.
		buf := make([]byte, 1<<20)
		dump := string(buf[:runtime.Stack(buf, true)])
		l.run.Violate(fmt.Sprintf("a single %s request processed entirely alone (the one-at-a-time reference) did not return within 60 s", path), dump[:min(len(dump), 6000)])
		c04Stuck(l.run)
	}
	rs, err := env.Stack.ReadState(k.Pub)
	if err != nil {
		panic(err)
	}
	next := kst{-1, -1, -1}
	if rs.HasAtt {
		next.Src, next.Tgt = int8(rs.Src), int8(rs.Tgt)
	}
	if rs.HasProp {
		next.Slot = int8(rs.Slot)
	}
	res := learned{verdict: v, next: next}
	l.memo[key] = res
	l.count++
	return res
}

// c04Indeterminate: a request that came back FAILED/UNKNOWN (or with a malformed result list) may or may not have
// taken effect; it stays open until the end of the history and the model accepts both possibilities.
func c04Indeterminate(in c04In, out c04Out) bool {
	if in.Kind == "read" {
		return false
	}
	if len(out.Verdicts) != len(in.Entries) {
		return true
	}
	for _, v := range out.Verdicts {
		if v == core.ResultFailed || v == core.ResultUnknown {
			return true
		}
	}
	return false
}

func c04Model(l *learner) porcupine.Model {
	nm := porcupine.NondeterministicModel{
		Init: func() []any { return []any{c04State{{-1, -1, -1}, {-1, -1, -1}, {-1, -1, -1}}} },
		Step: func(state, input, output any) []any {
			st := state.(c04State)
			in := input.(c04In)
			out := output.(c04Out)
			if in.Kind == "read" {
				if out.Read == st {
					return []any{st}
				}
				return nil
			}
			path := in.Kind
			if c04Indeterminate(in, out) {
				// Either nothing happened, or the whole request was evaluated (atomically) with whatever verdicts.
				applied := st
				for _, e := range in.Entries {
					applied[e.K] = l.lookup(path, applied[e.K], e).next
				}
				if applied == st {
					return []any{st}
				}
				return []any{st, applied}
			}
			for i, e := range in.Entries {
				ld := l.lookup(path, st[e.K], e)
				if ld.verdict != out.Verdicts[i] {
					return nil
				}
				st[e.K] = ld.next
			}
			return []any{st}
		},
		DescribeOperation: func(input, output any) string {
			return fmt.Sprintf("%+v -> %+v", input, output)
		},
	}
	return nm.ToModel()
}

// steer parks a request between its read and its write when a rival on the same record is in
// flight, so that broken locking turns into an overlap (under correct locking the rival is blocked
// on the key lock and the park just times out).
type steer struct {
	mu        sync.Mutex
	inflight  map[[49]byte]int
	parked    map[[49]byte]int
	wake      map[[49]byte]chan struct{}
	budget    time.Duration
	cancels   map[[49]byte]context.CancelFunc // requests to be abandoned by their client while inside the rules
	cancelled int64
	parks     int64
	met       int64
	on        atomic.Bool
}

func newSteer(budget time.Duration) *steer {
	return &steer{inflight: map[[49]byte]int{}, parked: map[[49]byte]int{}, wake: map[[49]byte]chan struct{}{}, cancels: map[[49]byte]context.CancelFunc{}, budget: budget}
}

func rec49(pub []byte, action byte) [49]byte {
	var k [49]byte
	copy(k[:], pub)
	k[48] = action
	return k
}

func (s *steer) enter(keys [][49]byte) {
	s.mu.Lock()
	for _, k := range keys {
		s.inflight[k]++
	}
	s.mu.Unlock()
}

func (s *steer) leave(keys [][49]byte) {
	s.mu.Lock()
	for _, k := range keys {
		s.inflight[k]--
	}
	s.mu.Unlock()
}

func (s *steer) hook(name string, keys [][]byte) error {
	if name != "store.Fetch.post" || !s.on.Load() || len(keys) != 1 || len(keys[0]) != 49 {
		return nil
	}
	var k [49]byte
	copy(k[:], keys[0])
	s.mu.Lock()
	if cancel := s.cancels[k]; cancel != nil {
		// The client gives up on this request exactly while it sits between its read and its write.
		delete(s.cancels, k)
		s.mu.Unlock()
		cancel()
		atomic.AddInt64(&s.cancelled, 1)
		time.Sleep(time.Duration(300+int(k[0])*6) * time.Microsecond)
		s.mu.Lock()
	}
	if s.inflight[k] < 2 {
		s.mu.Unlock()
		return nil
	}
	s.parked[k]++
	if s.parked[k] >= 2 {
		// A rival is parked at the same point: both have read and neither has written.
		atomic.AddInt64(&s.met, 1)
		if ch := s.wake[k]; ch != nil {
			close(ch)
			s.wake[k] = nil
		}
		s.parked[k]--
		s.mu.Unlock()
		return nil
	}
	ch := s.wake[k]
	if ch == nil {
		ch = make(chan struct{})
		s.wake[k] = ch
	}
	s.mu.Unlock()
	atomic.AddInt64(&s.parks, 1)
	select {
	case <-ch:
	case <-time.After(s.budget):
	}
	s.mu.Lock()
	s.parked[k]--
	if s.wake[k] == ch {
		s.wake[k] = nil
	}
	s.mu.Unlock()
	return nil
}

// c04Stuck ends the process: the blocked goroutines cannot be recovered.
var c04Stuck = func(run *evid.Run) {
	if run.NumViolations() == 0 {
		run.Inconclusive("concurrent requests did not complete within 90 s")
	}
	os.Exit(run.Finish())
}

type c04Stats struct {
	histories, ops, overlaps, setAside, illegal, unknown int
}

// c04History runs one concurrent history and checks it.  report is called for violations.
func c04History(run *evid.Run, r *rand.Rand, env *Env, l *learner, st *steer, h int, report func(what string, witness any)) (ops []porcupine.Operation) {
	via := ViaService
	if env.Wire != nil {
		via = ViaWire
		if !env.WireKeys(c04Keys) {
			return nil
		}
	} else {
		env.FreshKeys(c04Keys)
	}
	clients := 6 + r.Intn(3)
	perClient := 4 + r.Intn(2)
	type planned struct {
		in      c04In
		atts    []*AttCase
		prop    *PropCase
		recs    [][49]byte
		abandon bool
	}
	plans := make([][]planned, clients)
	for c := range plans {
		for q := 0; q < perClient; q++ {
			var p planned
			fill := byte(0xa0 + r.Intn(2))
			switch x := r.Intn(10); {
			case x < 4: // single attestation
				k := r.Intn(c04Keys)
				src := int8(r.Intn(6))
				tgt := src + int8(r.Intn(3))
				if tgt > 6 {
					tgt = 6
				}
				p.in = c04In{Kind: "att", Entries: []c04Entry{{K: k, Src: src, Tgt: tgt}}}
				a := mkAtt(env.Keys[k], env.Names[k], src, tgt, fill)
				a.Addr = RandAddr(r)
				p.atts = []*AttCase{a}
				p.recs = [][49]byte{rec49(env.Keys[k].Pub, 2)}
			case x < 8: // batch over 2..3 distinct keys in a random order
				n := 2 + r.Intn(2)
				perm := r.Perm(c04Keys)[:n]
				p.in = c04In{Kind: "atts"}
				for _, k := range perm {
					src := int8(r.Intn(6))
					tgt := src + int8(r.Intn(3))
					if tgt > 6 {
						tgt = 6
					}
					p.in.Entries = append(p.in.Entries, c04Entry{K: k, Src: src, Tgt: tgt})
					a := mkAtt(env.Keys[k], env.Names[k], src, tgt, fill)
					a.Addr = RandAddr(r)
					p.atts = append(p.atts, a)
					p.recs = append(p.recs, rec49(env.Keys[k].Pub, 2))
				}
			default:
				k := r.Intn(c04Keys)
				slot := int8(r.Intn(7))
				p.in = c04In{Kind: "prop", Entries: []c04Entry{{K: k, Slot: slot}}}
				p.prop = mkProp(env.Keys[k], env.Names[k], slot, fill)
				p.prop.Addr = RandAddr(r)
				p.recs = [][49]byte{rec49(env.Keys[k].Pub, 3)}
			}
			p.abandon = r.Intn(5) == 0
			plans[c] = append(plans[c], p)
		}
	}
	start := time.Now()
	var mu sync.Mutex
	var wg sync.WaitGroup
	barrier := make(chan struct{})
	slash := oracle.NewSlash()
	for c := range plans {
		wg.Add(1)
		go func(c int) {
			defer wg.Done()
			<-barrier
			for _, p := range plans[c] {
				st.enter(p.recs)
				if p.abandon {
					ctx, cancel := context.WithCancel(context.Background())
					for _, a := range p.atts {
						a.Ctx = ctx
					}
					if p.prop != nil {
						p.prop.Ctx = ctx
					}
					st.mu.Lock()
					st.cancels[p.recs[0]] = cancel
					st.mu.Unlock()
					defer cancel()
				}
				call := time.Since(start).Nanoseconds()
				var res []core.Result
				switch p.in.Kind {
				case "att":
					v, _ := env.SignAtt(via, p.atts[0])
					res = []core.Result{v}
				case "atts":
					res, _ = env.SignAtts(via, p.atts)
				case "prop":
					v, _ := env.SignProp(via, p.prop)
					res = []core.Result{v}
				}
				ret := time.Since(start).Nanoseconds()
				st.leave(p.recs)
				if !p.abandon && len(res) == len(p.in.Entries) {
					// Nothing was injected and the client did not give up: FAILED or UNKNOWN here is a plain refusal
					// (no signature, no effect), and it is judged as one - it must be explainable by some order in
					// which the request is refused.  (Only a request whose client went away is indeterminate.)
					for i, v := range res {
						if v == core.ResultFailed || v == core.ResultUnknown {
							res[i] = core.ResultDenied
							run.Count("unforced_failures_judged_as_refusals", 1)
						}
					}
				}
				mu.Lock()
				ops = append(ops, porcupine.Operation{ClientId: c, Input: p.in, Call: call, Output: c04Out{Verdicts: res}, Return: ret})
				mu.Unlock()
				for i, v := range res {
					if v != core.ResultSucceeded || i >= len(p.in.Entries) {
						continue
					}
					var why string
					if p.in.Kind == "prop" {
						why = slash.AddProp(p.prop.Key.Pub48(), p.prop.Data.Slot, p.prop.DataRoot())
					} else {
						a := p.atts[i]
						why = slash.AddAtt(a.Key.Pub48(), a.Data.Source.Epoch, a.Data.Target.Epoch, a.DataRoot())
					}
					if why != "" {
						report("conflicting requests both signed under concurrency: "+why, nil)
					}
				}
			}
		}(c)
	}
	st.on.Store(true)
	close(barrier)
	finished := make(chan struct{})
	go func() { wg.Wait(); close(finished) }()
	select {
	case <-finished:
	case <-time.After(90 * time.Second):
		// A history takes well under a second.  Requests that never come back have no outcome at all, which no
		// one-at-a-time processing can produce - provided they are really stuck in lock acquisition.
		buf := make([]byte, 1<<20)
		dump := string(buf[:runtime.Stack(buf, true)])
		if strings.Contains(dump, "locker/syncmap.(*Service).Lock") || strings.Contains(dump, "locker/syncmap.(*Service).PreLock") || strings.Contains(dump, "sync.(*Mutex).Lock") {
			report(fmt.Sprintf("history %d: concurrent requests did not complete within 90 s and are blocked acquiring locks; processing them one at a time always completes", h), dump[:min(len(dump), 6000)])
		}
		c04Stuck(run)
	}
	st.on.Store(false)
	// Final read of every key's stored state, appended as an operation after quiescence.  Over the wire the
	// database is read once the daemon has stopped (the keys of a history are never used again).
	var rd c04State
	if env.Wire == nil {
		for k := 0; k < c04Keys; k++ {
			rs, err := env.Stack.ReadState(env.Keys[k].Pub)
			if err != nil {
				report("cannot read final state: "+err.Error(), nil)
				return nil
			}
			rd[k] = kstOf(rs)
		}
	}
	t := time.Since(start).Nanoseconds()
	// A request with an indeterminate answer stays open beyond the end of the history.
	nextClient := clients + 1
	for i := range ops {
		if c04Indeterminate(ops[i].Input.(c04In), ops[i].Output.(c04Out)) {
			ops[i].Return = t + 1000
			// porcupine requires one operation at a time per client: move it to a client of its own.
			ops[i].ClientId = nextClient
			nextClient++
		}
	}
	if env.Wire == nil {
		ops = append(ops, porcupine.Operation{ClientId: clients, Input: c04In{Kind: "read"}, Call: t, Output: c04Out{Read: rd}, Return: t + 1})
	}
	return ops
}

func kstOf(rs rig.RawState) kst {
	k := kst{-1, -1, -1}
	if rs.HasAtt {
		k.Src, k.Tgt = int8(rs.Src), int8(rs.Tgt)
	}
	if rs.HasProp {
		k.Slot = int8(rs.Slot)
	}
	return k
}

// c04WireSlice records concurrent histories over TLS/gRPC against the real daemon (main.go's own wiring of
// locker, ruler and rules); the final reads are taken from the daemon's database after it has stopped.
func c04WireSlice(run *evid.Run, cfg Cfg, l *learner, report func(string, any)) {
	r := cfg.Rand("c04-wire")
	histories := cfg.N(12, 150)
	WireRigRace = true
	defer func() { WireRigRace = false }()
	w, err := NewWireRig(cfg, "c04-wire", c04Keys*histories, nil)
	if err != nil {
		run.Inconclusive("cannot start daemon for the wire slice: " + err.Error())
		return
	}
	defer w.Close()
	env := NewWireEnv(run, w)
	st := newSteer(0)
	var all [][]porcupine.Operation
	var keys [][]*rig.Key
	for h := 0; h < histories; h++ {
		ops := c04History(run, r, env, l, st, h, report)
		if ops == nil {
			break
		}
		all = append(all, ops)
		keys = append(keys, append([]*rig.Key{}, env.Keys...))
	}
	alive := w.D.Alive()
	w.D.Stop()
	daemonRaceReports(run, w.D, "concurrent signing requests over shared keys")
	if !alive {
		run.Inconclusive("daemon died during the wire slice: " + w.D.LogTail(400))
		return
	}
	svc, err := rig.OpenRules(w.D.Opts.Dir)
	if err != nil {
		run.Inconclusive("cannot open the daemon's database: " + err.Error())
		return
	}
	exp, err := exportTrips(svc)
	_ = svc.Close(context.Background())
	if err != nil {
		run.Inconclusive(err.Error())
		return
	}
	model := c04Model(l)
	for h, ops := range all {
		var rd c04State
		var last int64
		for k, key := range keys[h] {
			rd[k] = kst{-1, -1, -1}
			if t, ok := exp[key.Pub48()]; ok {
				rd[k] = kst{int8(t.Src), int8(t.Tgt), int8(t.Slot)}
			}
		}
		for _, op := range ops {
			if op.Return > last && !c04Indeterminate(op.Input.(c04In), op.Output.(c04Out)) {
				last = op.Return
			}
		}
		ops = append(ops, porcupine.Operation{ClientId: 99, Input: c04In{Kind: "read"}, Call: last + 1, Output: c04Out{Read: rd}, Return: last + 2})
		res, _ := porcupine.CheckOperationsVerbose(model, ops, 60*time.Second)
		run.Count("wire_histories_checked", 1)
		run.Count("wire_operations", len(ops))
		run.Count("wire_overlapping_same_key_pairs", c04Overlaps(ops))
		switch res {
		case porcupine.Illegal:
			report(fmt.Sprintf("wire history %d (%d operations against the real daemon) has no sequential explanation compatible with real-time order", h, len(ops)), c04Witness(ops, porcupine.LinearizationInfo{}))
		case porcupine.Unknown:
			run.Inconclusive("porcupine timed out on a wire history")
		}
	}
	if run.Get("wire_histories_checked") == 0 || run.Get("wire_overlapping_same_key_pairs") == 0 {
		run.Inconclusive("the wire slice observed no overlapping operations")
	}
}

func c04Overlaps(ops []porcupine.Operation) int {
	n := 0
	for i := range ops {
		for j := i + 1; j < len(ops); j++ {
			a, b := ops[i], ops[j]
			if a.Call < b.Return && b.Call < a.Return {
				ia, ib := a.Input.(c04In), b.Input.(c04In)
				share := false
				for _, ea := range ia.Entries {
					for _, eb := range ib.Entries {
						if ea.K == eb.K && (ia.Kind == "prop") == (ib.Kind == "prop") {
							share = true
						}
					}
				}
				if share {
					n++
				}
			}
		}
	}
	return n
}

func c04Workload(run *evid.Run, cfg Cfg, histories int, report func(string, any)) c04Stats {
	var stats c04Stats
	r := cfg.Rand("c04")
	env, err := NewEnv(run, cfg, "c04", rig.StackOpts{})
	if err != nil {
		run.Inconclusive(err.Error())
		return stats
	}
	defer env.Stack.Close()
	l, err := newLearner(run, cfg, "c04learn")
	if err != nil {
		run.Inconclusive(err.Error())
		return stats
	}
	defer l.env.Stack.Close()
	st := newSteer(2 * time.Millisecond)
	verifhook.Set(st.hook)
	defer verifhook.Set(nil)
	// Background traffic for ever-new keys through the same ruler and locker (a long-lived instance serves tens of
	// thousands of validators): generic requests that touch no stored state, a few hundred thousand distinct keys
	// over the run.  It shares nothing with the histories but the process.
	churnStop := make(chan struct{})
	var churned atomic.Int64
	for g := 0; g < 3; g++ {
		g := g
		go func() {
			cr := rand.New(rand.NewSource(cfg.Seed + 77 + int64(g)))
			data := []*ruler.RulesData{{WalletName: "W", AccountName: "churn", Data: &rules.SignData{Domain: Dom([]byte{9, 0, 0, 0}, 1), Data: Root32(1)}}}
			for {
				select {
				case <-churnStop:
					return
				default:
				}
				for k := 0; k < 512; k++ {
					data[0].PubKey = randBytes(cr, 48)
					env.Stack.Ruler.RunRules(context.Background(), env.Creds, ruler.ActionSign, data)
				}
				churned.Add(512)
				runtime.Gosched()
			}
		}()
	}
	defer func() {
		close(churnStop)
		run.Count("other_keys_locked_in_the_background", int(churned.Load()))
	}()
	model := c04Model(l)
	verdictVectors := map[string]bool{}
	defer runtime.GOMAXPROCS(runtime.GOMAXPROCS(0))
	for h := 0; h < histories; h++ {
		runtime.GOMAXPROCS([]int{16, 16, 4, 16, 2, 8}[h%6])
		nviol := 0
		ops := c04History(run, r, env, l, st, h, func(w string, wit any) { nviol++; report(w, wit) })
		if ops == nil {
			continue
		}
		stats.histories++
		stats.ops += len(ops)
		stats.overlaps += c04Overlaps(ops)
		faulty := false
		for _, op := range ops {
			out := op.Output.(c04Out)
			for _, v := range out.Verdicts {
				if v == core.ResultFailed || v == core.ResultUnknown {
					faulty = true
				}
			}
			verdictVectors[fmt.Sprint(op.Input.(c04In).Kind, out.Verdicts)] = true
		}
		if faulty {
			stats.setAside++ // counted; the history is still checked, with the failed requests as indeterminate operations
		}
		res, info := porcupine.CheckOperationsVerbose(model, ops, 60*time.Second)
		switch res {
		case porcupine.Illegal:
			stats.illegal++
			report(fmt.Sprintf("history %d (%d operations) has no sequential explanation compatible with real-time order", h, len(ops)), c04Witness(ops, info))
		case porcupine.Unknown:
			stats.unknown++
		}
		if h == 0 {
			run.Sample(map[string]any{"history": c04Witness(ops[:min(8, len(ops))], porcupine.LinearizationInfo{})})
		}
		if nviol > 0 && run.NumViolations() > 5 {
			break
		}
	}
	for v := range verdictVectors {
		run.Distinct("verdict-vector " + v)
	}
	run.Count("learned_semantics_entries", l.count)
	run.Count("steer_parks", int(atomic.LoadInt64(&st.parks)))
	run.Count("steer_rivals_met", int(atomic.LoadInt64(&st.met)))
	run.Count("requests_abandoned_by_client_inside_rules", int(atomic.LoadInt64(&st.cancelled)))
	return stats
}

func c04Witness(ops []porcupine.Operation, _ porcupine.LinearizationInfo) any {
	var out []map[string]any
	for _, op := range ops {
		out = append(out, map[string]any{"client": op.ClientId, "call_ns": op.Call, "return_ns": op.Return,
			"input": fmt.Sprintf("%+v", op.Input), "output": fmt.Sprintf("%+v", op.Output)})
	}
	return out
}

// C04 records concurrent histories at the signer boundary and checks them for linearizability
// against Dirk's own sequential behaviour.
func C04(cfg Cfg) int {
	run := evid.New("C04", cfg.Tier, cfg.Seed, "exploration")
	run.Rule = "short concurrent histories (6-8 clients x 4-5 single/batch attestation and proposal requests over 3 shared keys, epochs 0..6, batches naming keys in different orders, released from a barrier, requests parked between read and write while a rival is in flight) recorded at the signer boundary; " +
		"each history + a final state read is checked with porcupine against an unpartitioned 3-key model whose step function is Dirk's learned single-threaded behaviour; distinct = (request kind, verdict vector) classes observed"
	run.Assume = []string{"sequential specification = the real rules run single-threaded on fresh keys (memoised)", "porcupine v1.3.0"}
	histories := cfg.N(150, 3000)
	stats := c04Workload(run, cfg, histories, func(w string, wit any) { run.Violate(w, wit) })
	run.Eval(stats.ops)
	run.Count("histories_checked", stats.histories)
	run.Count("operations", stats.ops)
	run.Count("overlapping_same_key_pairs", stats.overlaps)
	run.Count("histories_with_failed_verdicts", stats.setAside)
	run.Count("porcupine_unknown", stats.unknown)
	if stats.unknown > 0 {
		run.Inconclusive(fmt.Sprintf("porcupine timed out on %d histories", stats.unknown))
	}
	if stats.histories > 0 && stats.setAside*100 > stats.histories {
		run.Inconclusive(fmt.Sprintf("%d of %d histories contained FAILED/UNKNOWN verdicts although no fault was injected", stats.setAside, stats.histories))
	}
	if stats.overlaps == 0 {
		run.Inconclusive("no overlapping same-key operations were observed")
	}
	if l, err := newLearner(run, cfg, "c04learn-wire"); err == nil {
		c04WireSlice(run, cfg, l, func(w string, wit any) { run.Violate(w, wit) })
		l.env.Stack.Close()
	} else {
		run.Inconclusive(err.Error())
	}
	c04Independent(run, cfg, func(w string, wit any) { run.Violate(w, wit) })
	c04LargeBatches(run, cfg, func(w string, wit any) { run.Violate(w, wit) })
	raceChild(run, cfg, "C04race")
	return run.Finish()
}

func init() {
	Children["C04race"] = func(cfg Cfg) int {
		run := evid.New("C04race", cfg.Tier, cfg.Seed, "exploration")
		c04Stuck = func(*evid.Run) { fmt.Println("RACE-CHILD operations 1"); os.Exit(4) }
		stats := c04Workload(run, cfg, cfg.N(25, 300), func(w string, _ any) { fmt.Println("CHILD-VIOLATION " + w) })
		fmt.Printf("RACE-CHILD operations %d\n", stats.ops)
		fmt.Printf("RACE-CHILD overlaps %d\n", stats.overlaps)
		return 0
	}
}

// c04Independent: clients that share NO key run side by side, each sequential on its own two keys.  With nothing
// shared, "some order compatible with real time" leaves no freedom: every client must see exactly what it would
// see alone.  Each client therefore judges its own requests against the sequential specification (advancing =>
// signed) and feeds its releases to a slashability oracle of its own.  Anything one request leaks into another
// through process-wide state below the locks (buffers, pools, caches) shows up here.
func c04Independent(run *evid.Run, cfg Cfg, violate func(string, any)) {
	env, err := NewEnv(run, cfg, "c04-indep", rig.StackOpts{})
	if err != nil {
		run.Inconclusive(err.Error())
		return
	}
	defer env.Stack.Close()
	const clients = 12
	env.FreshKeys(2 * clients)
	keys, names := append([]*rig.Key{}, env.Keys...), append([]string{}, env.Names...)
	ops := cfg.N(160, 1500)
	var wg sync.WaitGroup
	var total, released, refusedAdvancing atomic.Int64
	for c := 0; c < clients; c++ {
		wg.Add(1)
		r := rand.New(rand.NewSource(cfg.Seed*1009 + int64(c)))
		c := c
		go func() {
			defer wg.Done()
			sl := oracle.NewSlash()
			wm := make([]oracle.WM, 2)
			mine := []int{2 * c, 2*c + 1}
			// Clients start from different epochs so that a record read from the wrong key decides differently.
			base := uint64(10 + 40*c)
			var hist []string
			note := func(s string) {
				hist = append(hist, s)
				if len(hist) > 30 {
					hist = hist[1:]
				}
			}
			genAtt := func(k int) *AttCase {
				w := &wm[k]
				src, tgt := base, base+1
				if w.HasAtt {
					src, tgt = near(r, w.MaxSrc, -2, 2), near(r, w.MaxTgt, -2, 3)
				}
				if src > tgt {
					src, tgt = tgt, src
				}
				a := mkAtt(keys[mine[k]], names[mine[k]], 0, 1, []byte{0xaa, 0xbb}[r.Intn(2)])
				a.Addr = RandAddr(r)
				a.Data.Source.Epoch, a.Data.Target.Epoch, a.Data.Slot = src, tgt, tgt*32
				return a
			}
			judgeA := func(k int, a *AttCase, res core.Result, sig []byte) {
				total.Add(1)
				w := &wm[k]
				adv := w.AttAdvancing(a.Data.Source.Epoch, a.Data.Target.Epoch)
				note(fmt.Sprintf("client %d key %d att %d->%d root %x: %s (store per spec: %+v)", c, k, a.Data.Source.Epoch, a.Data.Target.Epoch, a.Data.BeaconBlockRoot[:1], res, *w))
				if res == core.ResultSucceeded && len(sig) > 0 {
					sr := a.SigningRoot()
					if ok, _ := oracle.VerifySig(a.Key.Pub, sr[:], sig); !ok {
						violate(fmt.Sprintf("independent clients: client %d got a signature that does not verify for its own request", c), append([]string{}, hist...))
						return
					}
					released.Add(1)
					if why := sl.AddAtt(a.Key.Pub48(), a.Data.Source.Epoch, a.Data.Target.Epoch, a.DataRoot()); why != "" {
						violate("independent clients: a client working alone on its keys was given a slashable attestation while other clients signed for OTHER keys: "+why, append([]string{}, hist...))
					}
					w.SignedAtt(a.Data.Source.Epoch, a.Data.Target.Epoch)
				} else if adv && res != core.ResultSucceeded {
					refusedAdvancing.Add(1)
					violate(fmt.Sprintf("independent clients: client %d was refused (%s) an attestation %d->%d that advances its own key's history %+v while other clients signed for OTHER keys", c, res, a.Data.Source.Epoch, a.Data.Target.Epoch, *w), append([]string{}, hist...))
				}
			}
			for i := 0; i < ops && run.NumViolations() < 5; i++ {
				switch r.Intn(4) {
				case 0, 1:
					k := r.Intn(2)
					a := genAtt(k)
					res, sig := env.SignAtt(ViaService, a)
					judgeA(k, a, res, sig)
				case 2:
					order := r.Perm(2)
					as := []*AttCase{genAtt(order[0]), genAtt(order[1])}
					res, sigs := env.SignAtts(ViaService, as)
					for j := range as {
						var rr core.Result = core.ResultFailed
						var sg []byte
						if j < len(res) {
							rr = res[j]
						}
						if j < len(sigs) {
							sg = sigs[j]
						}
						judgeA(order[j], as[j], rr, sg)
					}
				default:
					k := r.Intn(2)
					w := &wm[k]
					slot := base
					if w.HasProp {
						slot = near(r, w.MaxSlot, -2, 3)
					}
					p := mkProp(keys[mine[k]], names[mine[k]], 0, []byte{0xaa, 0xbb}[r.Intn(2)])
					p.Addr = RandAddr(r)
					p.Data.Slot = slot
					res, sig := env.SignProp(ViaService, p)
					total.Add(1)
					adv := w.PropAdvancing(slot)
					note(fmt.Sprintf("client %d key %d proposal slot %d root %x: %s (store per spec: %+v)", c, k, slot, p.Data.BodyRoot[:1], res, *w))
					if res == core.ResultSucceeded && len(sig) > 0 {
						released.Add(1)
						if why := sl.AddProp(p.Key.Pub48(), slot, p.DataRoot()); why != "" {
							violate("independent clients: a client working alone on its keys was given a slashable proposal while other clients signed for OTHER keys: "+why, append([]string{}, hist...))
						}
						if w.HasProp && slot <= w.MaxSlot {
							violate(fmt.Sprintf("independent clients: client %d was given a proposal at slot %d after slot %d while other clients signed for OTHER keys", c, slot, w.MaxSlot), append([]string{}, hist...))
						}
						w.SignedProp(slot)
					} else if adv && res != core.ResultSucceeded {
						violate(fmt.Sprintf("independent clients: client %d was refused (%s) a proposal at slot %d that advances its own key's history %+v while other clients signed for OTHER keys", c, res, slot, *w), append([]string{}, hist...))
					}
				}
			}
		}()
	}
	finished := make(chan struct{})
	go func() { wg.Wait(); close(finished) }()
	select {
	case <-finished:
	case <-time.After(120 * time.Second):
		buf := make([]byte, 1<<20)
		dump := string(buf[:runtime.Stack(buf, true)])
		if strings.Contains(dump, "locker/syncmap.(*Service).Lock") || strings.Contains(dump, "locker/syncmap.(*Service).PreLock") || strings.Contains(dump, "sync.(*Mutex).Lock") {
			violate("independent clients: requests did not complete within 120 s and are blocked acquiring locks; processing them one at a time always completes", dump[:min(len(dump), 6000)])
		}
		c04Stuck(run)
		return
	}
	run.Eval(int(total.Load()))
	run.Count("independent_client_requests", int(total.Load()))
	run.Count("independent_client_released", int(released.Load()))
	run.Distinct(fmt.Sprintf("independent clients: %d clients x 2 private keys, released>0=%v", clients, released.Load() > 0))
	if released.Load() == 0 {
		run.Inconclusive("independent clients released nothing")
	}
}

// c04LargeBatches: several clients send, at the same time, attestation batches naming the SAME few hundred keys
// (each in its own order) with the same epochs and their own block root.  One at a time, whichever batch comes first
// is signed in full and every other batch is refused in full; so over all keys there must be one winner, the same
// for every key.  Winners that differ from key to key mean the batches were interleaved.
func c04LargeBatches(run *evid.Run, cfg Cfg, violate func(string, any)) {
	env, err := NewEnv(run, cfg, "c04-large", rig.StackOpts{})
	if err != nil {
		run.Inconclusive(err.Error())
		return
	}
	defer env.Stack.Close()
	defer runtime.GOMAXPROCS(runtime.GOMAXPROCS(0))
	r := cfg.Rand("c04-large")
	sizes := []int{130, 300, 600}
	rounds := cfg.N(9, 60)
	for round := 0; round < rounds && run.NumViolations() < 5; round++ {
		n := sizes[round%len(sizes)]
		clients := 2 + round%3
		runtime.GOMAXPROCS(procsMix[round%len(procsMix)])
		env.FreshKeys(n)
		keys, names := env.Keys, env.Names
		epoch := uint64(20 + round)
		results := make([][]core.Result, clients)
		sigs := make([][][]byte, clients)
		orders := make([][]int, clients)
		var wg sync.WaitGroup
		start := make(chan struct{})
		for c := 0; c < clients; c++ {
			order := r.Perm(n)
			if c%2 == 1 {
				// the exact reverse of the previous client's order
				for i := range order {
					order[i] = orders[c-1][n-1-i]
				}
			}
			orders[c] = order
			cs := make([]*AttCase, n)
			for i, k := range order {
				cs[i] = mkAtt(keys[k], names[k], 0, 1, byte(0xa0+c))
				cs[i].Data.Source.Epoch, cs[i].Data.Target.Epoch, cs[i].Data.Slot = epoch, epoch+1, (epoch+1)*32
				if (i+c)%3 == 0 {
					cs[i].Addr = ByKey
				}
			}
			wg.Add(1)
			c := c
			go func() {
				defer wg.Done()
				<-start
				results[c], sigs[c] = env.SignAtts(ViaService, cs)
			}()
		}
		close(start)
		finished := make(chan struct{})
		go func() { wg.Wait(); close(finished) }()
		select {
		case <-finished:
		case <-time.After(90 * time.Second):
			buf := make([]byte, 1<<20)
			dump := string(buf[:runtime.Stack(buf, true)])
			if strings.Contains(dump, "locker/syncmap.(*Service).Lock") || strings.Contains(dump, "locker/syncmap.(*Service).PreLock") || strings.Contains(dump, "sync.(*Mutex).Lock") {
				violate(fmt.Sprintf("large overlapping batches over %d keys did not complete within 90 s and are blocked acquiring locks; processing them one at a time always completes", n), dump[:min(len(dump), 6000)])
			}
			c04Stuck(run)
			return
		}
		// Per key: who was signed?
		winnerOf := make([]int, n)
		wins := make([]int, clients)
		for k := range winnerOf {
			winnerOf[k] = -1
		}
		double := 0
		for c := 0; c < clients; c++ {
			for i, k := range orders[c] {
				if i < len(results[c]) && results[c][i] == core.ResultSucceeded && i < len(sigs[c]) && len(sigs[c][i]) > 0 {
					if winnerOf[k] >= 0 {
						double++
					}
					winnerOf[k] = c
					wins[c]++
				}
			}
		}
		run.Eval(n * clients)
		run.Count("large_batch_rounds", 1)
		run.Distinct(fmt.Sprintf("large batches n=%d clients=%d -> wins=%v", n, clients, wins != nil))
		witness := map[string]any{"keys": n, "clients": clients, "entries_signed_per_client": wins, "gomaxprocs": runtime.GOMAXPROCS(0)}
		if double > 0 {
			violate(fmt.Sprintf("large overlapping batches: %d keys were signed for two different attestations with the same target", double), witness)
			continue
		}
		full := 0
		for c := range wins {
			if wins[c] == n {
				full++
			} else if wins[c] != 0 {
				violate(fmt.Sprintf("large overlapping batches over the same %d keys were interleaved: the clients were signed %v entries each; one at a time, one batch is signed in full and the others not at all", n, wins), witness)
				full = -1
				break
			}
		}
		if full == 0 {
			violate(fmt.Sprintf("large overlapping batches over the same %d fresh keys: no batch was signed in full (%v), although whichever comes first advances every key", n, wins), witness)
		}
	}
}
