package rig

import (
	"context"
	"encoding/binary"
	"errors"
	"fmt"
	"reflect"

	badger "github.com/dgraph-io/badger/v2"

	"github.com/attestantio/dirk/rules"
	standardrules "github.com/attestantio/dirk/rules/standard"
	"github.com/attestantio/dirk/services/accountmanager"
	standardaccountmanager "github.com/attestantio/dirk/services/accountmanager/standard"
	amhandler "github.com/attestantio/dirk/services/api/grpc/handlers/accountmanager"
	listerhandler "github.com/attestantio/dirk/services/api/grpc/handlers/lister"
	receiverhandler "github.com/attestantio/dirk/services/api/grpc/handlers/receiver"
	signerhandler "github.com/attestantio/dirk/services/api/grpc/handlers/signer"
	wmhandler "github.com/attestantio/dirk/services/api/grpc/handlers/walletmanager"
	"github.com/attestantio/dirk/services/api/grpc/interceptors"
	"github.com/attestantio/dirk/services/checker"
	staticchecker "github.com/attestantio/dirk/services/checker/static"
	"github.com/attestantio/dirk/services/fetcher"
	"github.com/attestantio/dirk/services/lister"
	standardlister "github.com/attestantio/dirk/services/lister/standard"
	"github.com/attestantio/dirk/services/locker"
	syncmaplocker "github.com/attestantio/dirk/services/locker/syncmap"
	"github.com/attestantio/dirk/services/peers"
	staticpeers "github.com/attestantio/dirk/services/peers/static"
	"github.com/attestantio/dirk/services/process"
	standardprocess "github.com/attestantio/dirk/services/process/standard"
	"github.com/attestantio/dirk/services/ruler"
	goruler "github.com/attestantio/dirk/services/ruler/golang"
	"github.com/attestantio/dirk/services/sender"
	"github.com/attestantio/dirk/services/signer"
	standardsigner "github.com/attestantio/dirk/services/signer/standard"
	"github.com/attestantio/dirk/services/unlocker"
	localunlocker "github.com/attestantio/dirk/services/unlocker/local"
	"github.com/attestantio/dirk/services/walletmanager"
	standardwalletmanager "github.com/attestantio/dirk/services/walletmanager/standard"
	e2wtypes "github.com/wealdtech/go-eth2-wallet-types/v2"
)

// StackOpts configures a Stack.  Zero values give the defaults main.go would give.
type StackOpts struct {
	StorageDir  string // rules storage directory (required)
	Fetcher     fetcher.Service
	Permissions map[string][]*checker.Permissions // default: client1 may do everything everywhere
	AdminIPs    []string
	Passphrases []string // account passphrases known to the unlocker

	WrapRules    func(rules.Service) rules.Service
	WrapLocker   func(locker.Service) locker.Service
	WrapRuler    func(ruler.Service) ruler.Service
	WrapChecker  func(checker.Service) checker.Service
	WrapUnlocker func(unlocker.Service) unlocker.Service
	WrapSigner   func(signer.Service) signer.Service

	// Key generation (optional).  With ID==0 no process service is built.
	ID        uint64
	Peers     map[uint64]string
	Sender    sender.Service
	Stores    []e2wtypes.Store
	GenPass   string
	ProcessOp []standardprocess.Parameter
}

// Stack is one Dirk instance assembled from the real services.
type Stack struct {
	Opts       StackOpts
	Ctx        context.Context
	Cancel     context.CancelFunc
	StdRules   *standardrules.Service
	rulesStop  context.CancelFunc
	Rules      rules.Service
	Locker     locker.Service
	Ruler      ruler.Service
	Checker    checker.Service
	Unlocker   unlocker.Service
	Fetcher    fetcher.Service
	Signer     signer.Service
	Lister     lister.Service
	AccountMgr accountmanager.Service
	WalletMgr  walletmanager.Service
	Peers      peers.Service
	Process    process.Service

	SignerH   *signerhandler.Handler
	ListerH   *listerhandler.Handler
	AccountH  *amhandler.Handler
	WalletH   *wmhandler.Handler
	ReceiverH *receiverhandler.Handler
}

// AllPermissions is the permission table used when none is given.
func AllPermissions() map[string][]*checker.Permissions {
	return map[string][]*checker.Permissions{
		"client1": {{Path: ".*", Operations: []string{"All"}}},
	}
}

// Client1 returns credentials for the default client.
func Client1() *checker.Credentials {
	return &checker.Credentials{RequestID: "r", Client: "client1", IP: "10.0.0.1"}
}

// NewStack assembles a stack the way main.go does.
func NewStack(o StackOpts) (*Stack, error) {
	Init()
	AlternateLogging()
	if o.StorageDir == "" {
		return nil, fmt.Errorf("no storage dir")
	}
	if o.Fetcher == nil {
		return nil, fmt.Errorf("no fetcher")
	}
	if o.Permissions == nil {
		o.Permissions = AllPermissions()
	}
	if o.Passphrases == nil {
		o.Passphrases = []string{"pass"}
	}
	s := &Stack{Opts: o}
	s.Ctx, s.Cancel = context.WithCancel(context.Background())
	ctx := s.Ctx
	var err error

	s.Unlocker, err = localunlocker.New(ctx,
		localunlocker.WithWalletPassphrases(o.Passphrases),
		localunlocker.WithAccountPassphrases(o.Passphrases))
	if err != nil {
		return nil, err
	}
	if o.WrapUnlocker != nil {
		s.Unlocker = o.WrapUnlocker(s.Unlocker)
	}
	s.Checker, err = staticchecker.New(ctx, staticchecker.WithPermissions(o.Permissions))
	if err != nil {
		return nil, err
	}
	if o.WrapChecker != nil {
		s.Checker = o.WrapChecker(s.Checker)
	}
	s.Fetcher = o.Fetcher
	s.Locker, err = syncmaplocker.New(ctx)
	if err != nil {
		return nil, err
	}
	if o.WrapLocker != nil {
		s.Locker = o.WrapLocker(s.Locker)
	}
	if err := s.openRules(); err != nil {
		return nil, err
	}
	s.Lister, err = standardlister.New(ctx,
		standardlister.WithFetcher(s.Fetcher),
		standardlister.WithChecker(s.Checker),
		standardlister.WithRuler(s.Ruler))
	if err != nil {
		return nil, err
	}
	if err := s.buildSigner(); err != nil {
		return nil, err
	}
	s.WalletMgr, err = standardwalletmanager.New(ctx,
		standardwalletmanager.WithUnlocker(s.Unlocker),
		standardwalletmanager.WithChecker(s.Checker),
		standardwalletmanager.WithFetcher(s.Fetcher),
		standardwalletmanager.WithRuler(s.Ruler))
	if err != nil {
		return nil, err
	}
	if o.ID != 0 {
		s.Peers, err = staticpeers.New(ctx, staticpeers.WithPeers(o.Peers))
		if err != nil {
			return nil, err
		}
		params := []standardprocess.Parameter{
			standardprocess.WithChecker(s.Checker),
			standardprocess.WithUnlocker(s.Unlocker),
			standardprocess.WithSender(o.Sender),
			standardprocess.WithFetcher(s.Fetcher),
			standardprocess.WithPeers(s.Peers),
			standardprocess.WithID(o.ID),
			standardprocess.WithStores(o.Stores),
			standardprocess.WithGenerationPassphrase([]byte(o.GenPass)),
		}
		params = append(params, o.ProcessOp...)
		s.Process, err = standardprocess.New(ctx, params...)
		if err != nil {
			return nil, err
		}
		s.AccountMgr, err = standardaccountmanager.New(ctx,
			standardaccountmanager.WithUnlocker(s.Unlocker),
			standardaccountmanager.WithChecker(s.Checker),
			standardaccountmanager.WithFetcher(s.Fetcher),
			standardaccountmanager.WithRuler(s.Ruler),
			standardaccountmanager.WithProcess(s.Process))
		if err != nil {
			return nil, err
		}
		s.AccountH, err = amhandler.New(ctx, amhandler.WithAccountManager(s.AccountMgr), amhandler.WithProcess(s.Process))
		if err != nil {
			return nil, err
		}
		s.WalletH, err = wmhandler.New(ctx, wmhandler.WithWalletManager(s.WalletMgr), wmhandler.WithProcess(s.Process))
		if err != nil {
			return nil, err
		}
		s.ReceiverH, err = receiverhandler.New(ctx, receiverhandler.WithProcess(s.Process), receiverhandler.WithPeers(s.Peers))
		if err != nil {
			return nil, err
		}
	}
	s.ListerH, err = listerhandler.New(ctx, listerhandler.WithLister(s.Lister))
	if err != nil {
		return nil, err
	}
	return s, nil
}

func (s *Stack) openRules() error {
	var err error
	// The rules service gets its own never-cancelled context: closing is done explicitly
	// (and synchronously) through CloseRules so that restarts are deterministic.
	// (Its context is cancelled right after the explicit close, so that the service's own watcher goroutine ends
	// and the closed database can be garbage-collected.)
	var rulesCtx context.Context
	rulesCtx, s.rulesStop = context.WithCancel(context.Background())
	s.StdRules, err = standardrules.New(rulesCtx,
		standardrules.WithStoragePath(s.Opts.StorageDir),
		standardrules.WithAdminIPs(s.Opts.AdminIPs))
	if err != nil {
		return err
	}
	s.Rules = s.StdRules
	if s.Opts.WrapRules != nil {
		s.Rules = s.Opts.WrapRules(s.Rules)
	}
	s.Ruler, err = goruler.New(s.Ctx, goruler.WithLocker(s.Locker), goruler.WithRules(s.Rules))
	if err != nil {
		return err
	}
	if s.Opts.WrapRuler != nil {
		s.Ruler = s.Opts.WrapRuler(s.Ruler)
	}
	return nil
}

func (s *Stack) buildSigner() error {
	var err error
	s.Signer, err = standardsigner.New(s.Ctx,
		standardsigner.WithUnlocker(s.Unlocker),
		standardsigner.WithChecker(s.Checker),
		standardsigner.WithFetcher(s.Fetcher),
		standardsigner.WithRuler(s.Ruler))
	if err != nil {
		return err
	}
	if s.Opts.WrapSigner != nil {
		s.Signer = s.Opts.WrapSigner(s.Signer)
	}
	s.SignerH, err = signerhandler.New(s.Ctx, signerhandler.WithSigner(s.Signer))
	return err
}

// CloseRules closes the slashing-protection database.
func (s *Stack) CloseRules() error {
	err := s.StdRules.Close(context.Background())
	if s.rulesStop != nil {
		s.rulesStop()
	}
	return err
}

// Restart closes the slashing-protection database and reopens the same directory,
// rebuilding everything that holds a reference to it (as a process restart would).
func (s *Stack) Restart() error {
	if err := s.CloseRules(); err != nil {
		return fmt.Errorf("close: %w", err)
	}
	if err := s.openRules(); err != nil {
		return fmt.Errorf("reopen: %w", err)
	}
	var err error
	s.Lister, err = standardlister.New(s.Ctx,
		standardlister.WithFetcher(s.Fetcher),
		standardlister.WithChecker(s.Checker),
		standardlister.WithRuler(s.Ruler))
	if err != nil {
		return err
	}
	return s.buildSigner()
}

// Close shuts the stack down.
func (s *Stack) Close() {
	_ = s.CloseRules()
	s.Cancel()
}

// SyncWrites reports the SyncWrites option of the open badger database (read by reflection).
func (s *Stack) SyncWrites() (bool, error) {
	db := s.StdRules.VerifStore().VerifDB()
	v := reflect.ValueOf(db).Elem().FieldByName("opt")
	if !v.IsValid() {
		return false, fmt.Errorf("badger.DB has no field opt")
	}
	f := v.FieldByName("SyncWrites")
	if !f.IsValid() {
		return false, fmt.Errorf("badger.Options has no field SyncWrites")
	}
	return f.Bool(), nil
}

// Export returns the exported slashing protection state.
func (s *Stack) Export() (map[[48]byte]*rules.SlashingProtection, error) {
	return s.StdRules.ExportSlashingProtection(context.Background())
}

// HandlerCtx returns a context as the gRPC interceptors would build it.
func HandlerCtx(client string, ip string) context.Context {
	ctx := context.Background()
	ctx = context.WithValue(ctx, &interceptors.RequestID{}, "rq")
	if ip != "" {
		ctx = context.WithValue(ctx, &interceptors.ExternalIP{}, ip)
	}
	if client != "" {
		ctx = context.WithValue(ctx, &interceptors.ClientName{}, client)
	}
	return ctx
}

// RawState is the slashing-protection record of one key as read directly from badger
// (bypassing Dirk's Store code and its hook points).
type RawState struct {
	HasAtt   bool
	Src, Tgt int64
	HasProp  bool
	Slot     int64
	Legacy   bool // some record was not in the v1 format (values then come from Export)
}

// RawRecords returns the attestation and proposal records of one key as stored, normalised so that "no record"
// and "a record saying nothing was signed" are the same ("unset").
func (s *Stack) RawRecords(pub []byte) (string, string, error) {
	db := s.StdRules.VerifStore().VerifDB()
	get := func(action byte, unsetLen int) (string, error) {
		key := append(append([]byte{}, pub...), action)
		var val []byte
		err := db.View(func(txn *badger.Txn) error {
			item, err := txn.Get(key)
			if err != nil {
				return err
			}
			val, err = item.ValueCopy(nil)
			return err
		})
		if errors.Is(err, badger.ErrKeyNotFound) {
			return "unset", nil
		}
		if err != nil {
			return "", err
		}
		if len(val) == unsetLen && val[0] == 1 {
			all := true
			for _, b := range val[1:] {
				if b != 0xff {
					all = false
				}
			}
			if all {
				return "unset", nil
			}
		}
		return fmt.Sprintf("%x", val), nil
	}
	att, err := get(0x02, 17)
	if err != nil {
		return "", "", err
	}
	prop, err := get(0x03, 9)
	return att, prop, err
}

// ReadState reads the records of one key straight from the database.
func (s *Stack) ReadState(pub []byte) (RawState, error) {
	var st RawState
	db := s.StdRules.VerifStore().VerifDB()
	get := func(action byte) ([]byte, error) {
		key := append(append([]byte{}, pub...), action)
		var val []byte
		err := db.View(func(txn *badger.Txn) error {
			item, err := txn.Get(key)
			if err != nil {
				return err
			}
			val, err = item.ValueCopy(nil)
			return err
		})
		if errors.Is(err, badger.ErrKeyNotFound) {
			return nil, nil
		}
		return val, err
	}
	att, err := get(0x02)
	if err != nil {
		return st, err
	}
	prop, err := get(0x03)
	if err != nil {
		return st, err
	}
	if att != nil {
		if len(att) == 17 && att[0] == 1 {
			st.HasAtt = true
			st.Src = int64(binary.LittleEndian.Uint64(att[1:9]))
			st.Tgt = int64(binary.LittleEndian.Uint64(att[9:17]))
		} else {
			st.Legacy = true
		}
	}
	if prop != nil {
		if len(prop) == 9 && prop[0] == 1 {
			st.HasProp = true
			st.Slot = int64(binary.LittleEndian.Uint64(prop[1:9]))
		} else {
			st.Legacy = true
		}
	}
	if st.Legacy {
		exp, err := s.Export()
		if err != nil {
			return st, err
		}
		var k [48]byte
		copy(k[:], pub)
		if sp := exp[k]; sp != nil {
			st.HasAtt = sp.HighestAttestedSourceEpoch != -1 || sp.HighestAttestedTargetEpoch != -1
			st.Src, st.Tgt = sp.HighestAttestedSourceEpoch, sp.HighestAttestedTargetEpoch
			st.HasProp = sp.HighestProposedSlot != -1
			st.Slot = sp.HighestProposedSlot
		}
	}
	return st, nil
}
