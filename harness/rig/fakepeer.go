package rig

import (
	"context"
	"crypto/tls"
	"crypto/x509"
	"fmt"
	"net"
	"sync"

	pb "github.com/wealdtech/eth2-signer-api/pb/v1"
	"google.golang.org/grpc"
	"google.golang.org/grpc/credentials"
	"google.golang.org/protobuf/types/known/emptypb"
)

// FakePeer is a key-generation peer run by the harness: a TLS gRPC server answering the DKG service with
// scripted contribution replies, so that a real daemon's outgoing (gRPC sender) path can be fed faulty data.
type FakePeer struct {
	pb.UnimplementedDKGServer
	Addr   string
	server *grpc.Server

	mu sync.Mutex
	// Reply produces the contribution reply for a request; nil replies with an error.
	Reply func(req *pb.ContributeRequest) (*pb.ContributeResponse, error)
	// Received collects the contribution requests the daemon sent.
	Received []*pb.ContributeRequest
}

// NewFakePeer starts the server on ip:port with a certificate for that address issued by ca.
func NewFakePeer(ca *CA, ip string, port int) (*FakePeer, error) {
	crt, err := ca.Issue(CertOpts{CN: ip, IPs: []string{ip}})
	if err != nil {
		return nil, err
	}
	pool := x509.NewCertPool()
	pool.AppendCertsFromPEM(ca.CertPEM)
	creds := credentials.NewTLS(&tls.Config{Certificates: []tls.Certificate{crt.TLS}, ClientCAs: pool, ClientAuth: tls.RequireAndVerifyClientCert, MinVersion: tls.VersionTLS13})
	l, err := net.Listen("tcp", fmt.Sprintf("%s:%d", ip, port))
	if err != nil {
		return nil, err
	}
	f := &FakePeer{Addr: fmt.Sprintf("%s:%d", ip, port), server: grpc.NewServer(grpc.Creds(creds))}
	pb.RegisterDKGServer(f.server, f)
	go func() { _ = f.server.Serve(l) }()
	return f, nil
}

func (f *FakePeer) Stop() { f.server.Stop() }

func (f *FakePeer) Prepare(context.Context, *pb.PrepareRequest) (*emptypb.Empty, error) {
	return &emptypb.Empty{}, nil
}
func (f *FakePeer) Execute(context.Context, *pb.ExecuteRequest) (*emptypb.Empty, error) {
	return &emptypb.Empty{}, nil
}
func (f *FakePeer) Abort(context.Context, *pb.AbortRequest) (*emptypb.Empty, error) {
	return &emptypb.Empty{}, nil
}
func (f *FakePeer) Commit(context.Context, *pb.CommitRequest) (*pb.CommitResponse, error) {
	return nil, fmt.Errorf("fake peer does not commit")
}
func (f *FakePeer) Contribute(_ context.Context, req *pb.ContributeRequest) (*pb.ContributeResponse, error) {
	f.mu.Lock()
	f.Received = append(f.Received, req)
	reply := f.Reply
	f.mu.Unlock()
	if reply == nil {
		return nil, fmt.Errorf("no reply scripted")
	}
	return reply(req)
}

// SetReply installs the reply script.
func (f *FakePeer) SetReply(r func(req *pb.ContributeRequest) (*pb.ContributeResponse, error)) {
	f.mu.Lock()
	f.Reply = r
	f.Received = nil
	f.mu.Unlock()
}

// Requests returns the contribution requests received since the last SetReply.
func (f *FakePeer) Requests() []*pb.ContributeRequest {
	f.mu.Lock()
	defer f.mu.Unlock()
	return append([]*pb.ContributeRequest(nil), f.Received...)
}
