package rig

import (
	"bytes"
	"context"
	"os"
	"os/exec"
	"path/filepath"

	standardrules "github.com/attestantio/dirk/rules/standard"
)

// DirkBin is the path of the dirk executable built from /repo's working tree.
func DirkBin() string {
	if v := os.Getenv("DIRK_BIN"); v != "" {
		return v
	}
	return "/verif/.bin/dirk"
}

// RaceDirkBin is the daemon built with the race detector.
func RaceDirkBin() string {
	if v := os.Getenv("DIRK_RACE_BIN"); v != "" {
		return v
	}
	return "/verif/.bin/dirk-race"
}

// NewBaseDir creates a minimal base directory for CLI commands (storage in <dir>/storage).
func NewBaseDir(dir string) error {
	if err := os.MkdirAll(dir, 0o755); err != nil {
		return err
	}
	return os.WriteFile(filepath.Join(dir, "dirk.yml"), []byte("server:\n  name: cli\nstorage-path: storage\n"), 0o644)
}

// RunDirk runs the dirk executable with a base directory and returns stdout, stderr and the exit code.
func RunDirk(base string, args ...string) (string, string, int) {
	cmd := exec.Command(DirkBin(), append([]string{"--base-dir", base}, args...)...)
	var so, se bytes.Buffer
	cmd.Stdout, cmd.Stderr = &so, &se
	err := cmd.Run()
	code := 0
	if err != nil {
		if ee, ok := err.(*exec.ExitError); ok {
			code = ee.ExitCode()
		} else {
			code = -1
		}
	}
	return so.String(), se.String(), code
}

// Rules is an in-process handle on the slashing-protection database of a base directory.
type Rules struct {
	*standardrules.Service
	stop context.CancelFunc
}

// Close closes the database and ends the service's watcher goroutine (so the closed database can be collected).
func (r *Rules) Close(ctx context.Context) error {
	err := r.Service.Close(ctx)
	r.stop()
	return err
}

// OpenRules opens the slashing-protection database of a base directory in-process.
func OpenRules(base string) (*Rules, error) {
	Init()
	ctx, cancel := context.WithCancel(context.Background())
	svc, err := standardrules.New(ctx, standardrules.WithStoragePath(filepath.Join(base, "storage")))
	if err != nil {
		cancel()
		return nil, err
	}
	return &Rules{Service: svc, stop: cancel}, nil
}
