// Package rig assembles real Dirk service stacks for the verification workloads and
// provides the interposers (monitors, fault injectors) placed on their public seams.
package rig

import (
	"crypto/sha256"
	"encoding/binary"
	"fmt"
	"io"
	"os"
	"sync"
	"sync/atomic"

	"github.com/rs/zerolog"
	zerologger "github.com/rs/zerolog/log"
	e2types "github.com/wealdtech/go-eth2-types/v2"
)

var initOnce sync.Once

// Init initialises the BLS library and silences logging.  Safe to call repeatedly.
func Init() {
	initOnce.Do(func() {
		if err := e2types.InitBLS(); err != nil {
			fmt.Fprintf(os.Stderr, "InitBLS: %v\n", err)
			os.Exit(3)
		}
		zerolog.SetGlobalLevel(zerolog.Disabled)
	})
}

// TraceLoggingToDiscard turns on trace-level logging into a discard sink, so that the
// argument evaluation of every log statement runs (used by crash-hunting workloads).
func TraceLoggingToDiscard() {
	zerologger.Logger = zerolog.New(io.Discard)
	zerolog.SetGlobalLevel(zerolog.TraceLevel)
}

var logToggle atomic.Int64

// AlternateLogging is called whenever a new set of services is about to be assembled: successive sets alternate
// between disabled logging and trace-level logging into a discard sink (the services capture their level when they
// are constructed), starting from the mode the process was started with (VERIF_LOG, which itself alternates with
// check number and seed).  It returns the mode chosen.
func AlternateLogging() string {
	n := logToggle.Add(1)
	trace := n%2 == 0
	if os.Getenv("VERIF_LOG") == "trace" {
		trace = !trace
	}
	if trace {
		TraceLoggingToDiscard()
		return "trace"
	}
	zerolog.SetGlobalLevel(zerolog.Disabled)
	return "off"
}

// Key is a validator key the harness knows everything about.
type Key struct {
	Index int
	Priv  *e2types.BLSPrivateKey
	Pub   []byte // 48 bytes
}

// OpaqueKey returns a 48-byte key that is no BLS point: the store, the interchange files and the rules treat keys
// as opaque bytes, so leading zero nibbles and bytes (which no compressed BLS key has) must be handled too.
func OpaqueKey(label string, prefix ...byte) *Key {
	h := sha256.Sum256([]byte("opaque-" + label))
	pub := append(append([]byte{}, prefix...), h[:]...)
	pub = append(pub, h[:]...)
	return &Key{Index: -1, Pub: pub[:48]}
}

// Pub48 returns the public key as an array.
func (k *Key) Pub48() [48]byte {
	var r [48]byte
	copy(r[:], k.Pub)
	return r
}

// DetKey derives key number i of a family deterministically.
func DetKey(family string, i int) *Key {
	var buf [8]byte
	binary.LittleEndian.PutUint64(buf[:], uint64(i))
	h := sha256.Sum256(append([]byte("verif-key/"+family+"/"), buf[:]...))
	h[0] &= 0x3f // below the group order
	h[31] |= 1   // non-zero
	priv, err := e2types.BLSPrivateKeyFromBytes(h[:])
	if err != nil {
		panic(err)
	}
	return &Key{Index: i, Priv: priv, Pub: priv.PublicKey().Marshal()}
}

// DetKeys derives n keys.
func DetKeys(family string, n int) []*Key {
	res := make([]*Key, n)
	for i := range res {
		res[i] = DetKey(family, i)
	}
	return res
}
