package rig

import (
	"bytes"
	"context"
	"crypto/sha256"
	"errors"
	"fmt"
	"sync"

	"github.com/attestantio/dirk/services/fetcher"
	"github.com/google/uuid"
	e2types "github.com/wealdtech/go-eth2-types/v2"
	e2wallet "github.com/wealdtech/go-eth2-wallet"
	e2wtypes "github.com/wealdtech/go-eth2-wallet-types/v2"
)

// SynthWallet is a thread-safe in-memory wallet.
type SynthWallet struct {
	id       uuid.UUID
	name     string
	mu       sync.Mutex
	unlocked bool
	accounts []*SynthAccount
}

func detUUID(s string) uuid.UUID {
	h := sha256.Sum256([]byte(s))
	var u uuid.UUID
	copy(u[:], h[:16])
	return u
}

func NewSynthWallet(name string) *SynthWallet {
	return &SynthWallet{id: detUUID("wallet/" + name), name: name}
}

func (w *SynthWallet) ID() uuid.UUID { return w.id }
func (w *SynthWallet) Name() string  { return w.name }
func (*SynthWallet) Type() string    { return "non-deterministic" }
func (*SynthWallet) Version() uint   { return 1 }
func (w *SynthWallet) Accounts(_ context.Context) <-chan e2wtypes.Account {
	w.mu.Lock()
	defer w.mu.Unlock()
	ch := make(chan e2wtypes.Account, len(w.accounts))
	for _, a := range w.accounts {
		ch <- a
	}
	close(ch)
	return ch
}
func (w *SynthWallet) Lock(_ context.Context) error {
	w.mu.Lock()
	w.unlocked = false
	w.mu.Unlock()
	return nil
}
func (w *SynthWallet) Unlock(_ context.Context, _ []byte) error {
	w.mu.Lock()
	w.unlocked = true
	w.mu.Unlock()
	return nil
}
func (w *SynthWallet) IsUnlocked(_ context.Context) (bool, error) {
	w.mu.Lock()
	defer w.mu.Unlock()
	return w.unlocked, nil
}

// SynthAccount is a thread-safe in-memory account holding a real BLS key.
type SynthAccount struct {
	id     uuid.UUID
	name   string
	wallet *SynthWallet
	key    *Key
	pass   []byte

	mu       sync.Mutex
	unlocked bool
}

func (a *SynthAccount) ID() uuid.UUID                { return a.id }
func (a *SynthAccount) Name() string                 { return a.name }
func (a *SynthAccount) PublicKey() e2types.PublicKey { return a.key.Priv.PublicKey() }
func (a *SynthAccount) Wallet() e2wtypes.Wallet      { return a.wallet }
func (a *SynthAccount) Key() *Key                    { return a.key }
func (a *SynthAccount) Lock(_ context.Context) error {
	a.mu.Lock()
	a.unlocked = false
	a.mu.Unlock()
	return nil
}
func (a *SynthAccount) Unlock(_ context.Context, passphrase []byte) error {
	if !bytes.Equal(passphrase, a.pass) {
		return errors.New("incorrect passphrase")
	}
	a.mu.Lock()
	a.unlocked = true
	a.mu.Unlock()
	return nil
}
func (a *SynthAccount) IsUnlocked(_ context.Context) (bool, error) {
	a.mu.Lock()
	defer a.mu.Unlock()
	return a.unlocked, nil
}
func (a *SynthAccount) Sign(_ context.Context, data []byte) (e2types.Signature, error) {
	a.mu.Lock()
	u := a.unlocked
	a.mu.Unlock()
	if !u {
		return nil, errors.New("account locked")
	}
	return a.key.Priv.Sign(data), nil
}

// SynthFetcher is an in-memory fetcher.Service over synthetic wallets.
type SynthFetcher struct {
	fetcher.Service // nil; keeps the type compiling if the interface grows
	mu              sync.RWMutex
	wallets         map[string]*SynthWallet
	byName          map[string]*SynthAccount // "wallet/account"
	byKey           map[[48]byte]*SynthAccount
}

func NewSynthFetcher() *SynthFetcher {
	return &SynthFetcher{
		wallets: map[string]*SynthWallet{},
		byName:  map[string]*SynthAccount{},
		byKey:   map[[48]byte]*SynthAccount{},
	}
}

// Add creates an account (and its wallet if needed).  pass is the passphrase that unlocks it.
func (f *SynthFetcher) Add(walletName, accountName string, key *Key, pass string, unlocked bool) *SynthAccount {
	f.mu.Lock()
	defer f.mu.Unlock()
	w, ok := f.wallets[walletName]
	if !ok {
		w = NewSynthWallet(walletName)
		f.wallets[walletName] = w
	}
	a := &SynthAccount{
		id:       detUUID("account/" + walletName + "/" + accountName),
		name:     accountName,
		wallet:   w,
		key:      key,
		pass:     []byte(pass),
		unlocked: unlocked,
	}
	w.mu.Lock()
	w.accounts = append(w.accounts, a)
	w.mu.Unlock()
	f.byName[walletName+"/"+accountName] = a
	f.byKey[key.Pub48()] = a
	return a
}

func (f *SynthFetcher) FetchWallet(_ context.Context, path string) (e2wtypes.Wallet, error) {
	walletName, _, err := e2wallet.WalletAndAccountNames(path)
	if err != nil {
		return nil, err
	}
	f.mu.RLock()
	defer f.mu.RUnlock()
	w, ok := f.wallets[walletName]
	if !ok {
		return nil, errors.New("wallet not found")
	}
	return w, nil
}

func (f *SynthFetcher) FetchAccount(_ context.Context, path string) (e2wtypes.Wallet, e2wtypes.Account, error) {
	walletName, accountName, err := e2wallet.WalletAndAccountNames(path)
	if err != nil {
		return nil, nil, err
	}
	f.mu.RLock()
	defer f.mu.RUnlock()
	a, ok := f.byName[walletName+"/"+accountName]
	if !ok {
		return nil, nil, errors.New("account not found")
	}
	return a.wallet, a, nil
}

func (f *SynthFetcher) FetchAccountByKey(_ context.Context, pubKey []byte) (e2wtypes.Wallet, e2wtypes.Account, error) {
	// Like the in-memory fetcher of Dirk, the lookup key is the first 48 bytes (zero-padded).
	var k [48]byte
	copy(k[:], pubKey)
	f.mu.RLock()
	defer f.mu.RUnlock()
	a, ok := f.byKey[k]
	if !ok {
		return nil, nil, errors.New("public key not known")
	}
	return a.wallet, a, nil
}

func (f *SynthFetcher) FetchAccounts(_ context.Context, path string) (map[string]e2wtypes.Account, error) {
	walletName, _, err := e2wallet.WalletAndAccountNames(path)
	if err != nil {
		return nil, err
	}
	f.mu.RLock()
	defer f.mu.RUnlock()
	w, ok := f.wallets[walletName]
	if !ok {
		return nil, errors.New("wallet not found")
	}
	res := map[string]e2wtypes.Account{}
	w.mu.Lock()
	for _, a := range w.accounts {
		res[a.name] = a
	}
	w.mu.Unlock()
	return res, nil
}

func (f *SynthFetcher) AddAccount(_ context.Context, _ e2wtypes.Wallet, _ e2wtypes.Account) error {
	return fmt.Errorf("synthetic fetcher does not add accounts")
}
