package rig

import (
	"context"
	"errors"
	"fmt"
	"os"
	"path/filepath"
	"strings"
	"sync"
	"sync/atomic"
	"time"

	"github.com/attestantio/dirk/core"
	"github.com/attestantio/dirk/services/api/grpc/interceptors"
	"github.com/attestantio/dirk/services/checker"
	memfetcher "github.com/attestantio/dirk/services/fetcher/mem"
	standardprocess "github.com/attestantio/dirk/services/process/standard"
	"github.com/attestantio/dirk/services/sender"
	"github.com/herumi/bls-eth-go-binary/bls"
	pb "github.com/wealdtech/eth2-signer-api/pb/v1"
	distributed "github.com/wealdtech/go-eth2-wallet-distributed"
	keystorev4 "github.com/wealdtech/go-eth2-wallet-encryptor-keystorev4"
	nd "github.com/wealdtech/go-eth2-wallet-nd/v2"
	scratch "github.com/wealdtech/go-eth2-wallet-store-scratch"
	e2wtypes "github.com/wealdtech/go-eth2-wallet-types/v2"
	"google.golang.org/grpc/codes"
	"google.golang.org/grpc/status"
)

// Msg is one key-generation protocol message travelling through the routing sender.
type Msg struct {
	Seq     int
	Kind    string // prepare, execute, commit, abort, contribute
	From    uint64
	To      uint64
	Account string

	// Payloads (mutable by the hook before delivery).
	Threshold    uint32
	Passphrase   []byte
	Participants []*core.Endpoint
	Secret       []byte   // contribute: serialized secret share for the recipient
	VVec         [][]byte // contribute: serialized verification vector
	Confirmation []byte
}

// Action tells the routing sender what to do with a message.
type Action struct {
	Drop         bool                                 // not delivered; the sender gets an error
	ErrorReply   bool                                 // delivered, but the sender gets an error instead of the reply
	Duplicate    bool                                 // delivered twice (the second reply is returned)
	Delay        time.Duration                        // sleep before delivery
	MutateReply  func(secret *[]byte, vvec *[][]byte) // contribute replies only
	MutateCommit func(pubKey *[]byte, sig *[]byte)    // commit replies only
}

// Cluster is a set of in-process Dirk instances joined by routing senders.
type Cluster struct {
	Inst map[uint64]*Instance
	IDs  []uint64

	mu   sync.Mutex
	seq  int
	Hook func(m *Msg) Action // may be nil
	// Observe is called after delivery with the message as sent and the reply payloads (contribute only).
	Observe func(m *Msg, replySecret []byte, replyVVec [][]byte, err error)
}

// Instance is one participant.
type Instance struct {
	ID      uint64
	Name    string
	Stack   *Stack
	Store   e2wtypes.Store
	GenPass string // the instance's configured generation passphrase
	c       *Cluster
}

// ClusterOpts configures a cluster.
type ClusterOpts struct {
	// DistinctGenPass gives every instance its own generation passphrase, known only to its own unlocker (besides
	// the common client passphrase "pass").
	DistinctGenPass bool
	Dir             string
	IDs             []uint64
	Permissions     map[string][]*checker.Permissions
	ProcessOp       []standardprocess.Parameter
	NDAccounts      int // number of accounts created in nd wallet "N" of each instance
	// NDWallets creates further nd wallets with the named accounts (keys from DetKey("ndw-<wallet>", i)).
	NDWallets map[string][]string
}

// NewCluster builds the instances; every instance has a distributed wallet "D" (and an nd wallet "N").
func NewCluster(o ClusterOpts) (*Cluster, error) {
	Init()
	c := &Cluster{Inst: map[uint64]*Instance{}, IDs: o.IDs}
	peers := map[uint64]string{}
	for _, id := range o.IDs {
		peers[id] = fmt.Sprintf("host%d:%d", id%100000, 9000+id%1000)
	}
	ctx := context.Background()
	if err := os.MkdirAll(o.Dir, 0o755); err != nil {
		return nil, err
	}
	for _, id := range o.IDs {
		inst := &Instance{ID: id, Name: fmt.Sprintf("host%d", id%100000), c: c}
		store := scratch.New()
		enc := keystorev4.New()
		if _, err := distributed.CreateWallet(ctx, "D", store, enc); err != nil {
			return nil, err
		}
		ndw, err := nd.CreateWallet(ctx, "N", store, enc)
		if err != nil {
			return nil, err
		}
		if o.NDAccounts > 0 {
			if err := ndw.(e2wtypes.WalletLocker).Unlock(ctx, nil); err != nil {
				return nil, err
			}
			for i := 0; i < o.NDAccounts; i++ {
				k := DetKey(fmt.Sprintf("nd-%d", id), i)
				if _, err := ndw.(e2wtypes.WalletAccountImporter).ImportAccount(ctx, fmt.Sprintf("acct%d", i), k.Priv.Marshal(), []byte("pass")); err != nil {
					return nil, err
				}
			}
			_ = ndw.(e2wtypes.WalletLocker).Lock(ctx)
		}
		for wname, accts := range o.NDWallets {
			w, err := nd.CreateWallet(ctx, wname, store, enc)
			if err != nil {
				return nil, err
			}
			if err := w.(e2wtypes.WalletLocker).Unlock(ctx, nil); err != nil {
				return nil, err
			}
			for i, a := range accts {
				k := DetKey("ndw-"+wname, i)
				if _, err := w.(e2wtypes.WalletAccountImporter).ImportAccount(ctx, a, k.Priv.Marshal(), []byte("pass")); err != nil {
					return nil, err
				}
			}
			_ = w.(e2wtypes.WalletLocker).Lock(ctx)
		}
		inst.Store = store
		f, err := memfetcher.New(ctx, memfetcher.WithStores([]e2wtypes.Store{store}), memfetcher.WithEncryptor(enc))
		if err != nil {
			return nil, err
		}
		inst.GenPass = "pass"
		var passes []string
		if o.DistinctGenPass {
			inst.GenPass = fmt.Sprintf("generation-passphrase-of-%d", id)
			passes = []string{"pass", inst.GenPass}
		}
		st, err := NewStack(StackOpts{
			StorageDir: filepath.Join(o.Dir, fmt.Sprintf("inst%d", id)), Fetcher: f, Permissions: o.Permissions, Passphrases: passes,
			ID: id, Peers: peers, Sender: &RouteSender{c: c, from: inst}, Stores: []e2wtypes.Store{store}, GenPass: inst.GenPass, ProcessOp: o.ProcessOp,
		})
		if err != nil {
			return nil, err
		}
		inst.Stack = st
		c.Inst[id] = inst
	}
	return c, nil
}

// Close shuts every instance down.
func (c *Cluster) Close() {
	for _, i := range c.Inst {
		i.Stack.Close()
	}
}

// Endpoint returns the endpoint of an instance as the peers service describes it.
func (c *Cluster) Endpoint(id uint64) *core.Endpoint {
	return &core.Endpoint{ID: id, Name: fmt.Sprintf("host%d", id%100000), Port: uint32(9000 + id%1000)}
}

// PeerCtx is the context a receiver handler sees for a call from the named caller.
func PeerCtx(name string) context.Context {
	ctx := context.Background()
	if name != "" {
		ctx = context.WithValue(ctx, &interceptors.ClientName{}, name)
	}
	return ctx
}

// RouteSender implements sender.Service by calling the recipient's receiver handler, the way the
// gRPC sender does over the wire, with the caller's name as authenticated identity.
type RouteSender struct {
	sender.Service // nil; keeps the type compiling if the interface grows
	c              *Cluster
	from           *Instance
}

var errLost = errors.New("message lost")

// HandlerPanics counts panics raised by a receiver handler while it served a routed message.  The routing sender
// stands where the recipient's gRPC server stands in a deployment; what a server does with a handler panic (die, or
// answer Internal) is decided on the real daemon by the wire slices, so here the panic is recorded and the sender
// sees an error, and the verdict on crashes is left to those slices.
var HandlerPanics atomic.Int64

// LastHandlerPanic describes the most recent one.
var LastHandlerPanic atomic.Value

// Safely runs a handler invocation the way a server with a recovery interceptor would.
func Safely(f func() error) (err error) {
	defer func() {
		if p := recover(); p != nil {
			HandlerPanics.Add(1)
			LastHandlerPanic.Store(strings.SplitN(fmt.Sprint(p), "\n", 2)[0])
			err = status.Error(codes.Internal, "handler panicked")
		}
	}()
	return f()
}

func (s *RouteSender) deliver(m *Msg) (*Instance, Action, error) {
	s.c.mu.Lock()
	s.c.seq++
	m.Seq = s.c.seq
	hook := s.c.Hook
	s.c.mu.Unlock()
	var act Action
	if hook != nil {
		act = hook(m)
	}
	if act.Delay > 0 {
		time.Sleep(act.Delay)
	}
	to, ok := s.c.Inst[m.To]
	if !ok {
		return nil, act, fmt.Errorf("unknown recipient %d", m.To)
	}
	if act.Drop {
		return nil, act, errLost
	}
	return to, act, nil
}

func (s *RouteSender) Prepare(_ context.Context, recipient *core.Endpoint, account string, passphrase []byte, threshold uint32, participants []*core.Endpoint) error {
	m := &Msg{Kind: "prepare", From: s.from.ID, To: recipient.ID, Account: account, Passphrase: passphrase, Threshold: threshold, Participants: participants}
	to, act, err := s.deliver(m)
	if err != nil {
		return err
	}
	do := func() error {
		req := &pb.PrepareRequest{Account: m.Account, Passphrase: m.Passphrase, Threshold: m.Threshold}
		for _, p := range m.Participants {
			req.Participants = append(req.Participants, &pb.Endpoint{Id: p.ID, Name: p.Name, Port: p.Port})
		}
		return Safely(func() error {
			_, err := to.Stack.ReceiverH.Prepare(PeerCtx(s.from.Name), req)
			return err
		})
	}
	err = do()
	if act.Duplicate {
		err = do()
	}
	if act.ErrorReply {
		return errors.New("injected error reply")
	}
	return err
}

func (s *RouteSender) Execute(_ context.Context, recipient *core.Endpoint, account string) error {
	m := &Msg{Kind: "execute", From: s.from.ID, To: recipient.ID, Account: account}
	to, act, err := s.deliver(m)
	if err != nil {
		return err
	}
	exec := func() error {
		return Safely(func() error {
			_, err := to.Stack.ReceiverH.Execute(PeerCtx(s.from.Name), &pb.ExecuteRequest{Account: m.Account})
			return err
		})
	}
	err = exec()
	if act.Duplicate {
		err = exec()
	}
	if act.ErrorReply {
		return errors.New("injected error reply")
	}
	return err
}

func (s *RouteSender) Commit(_ context.Context, recipient *core.Endpoint, account string, confirmationData []byte) ([]byte, []byte, error) {
	m := &Msg{Kind: "commit", From: s.from.ID, To: recipient.ID, Account: account, Confirmation: confirmationData}
	to, act, err := s.deliver(m)
	if err != nil {
		return nil, nil, err
	}
	var res *pb.CommitResponse
	err = Safely(func() error {
		var err error
		res, err = to.Stack.ReceiverH.Commit(PeerCtx(s.from.Name), &pb.CommitRequest{Account: m.Account, ConfirmationData: m.Confirmation})
		return err
	})
	if err != nil {
		return nil, nil, err
	}
	if act.ErrorReply {
		return nil, nil, errors.New("injected error reply")
	}
	pk, sig := res.GetPublicKey(), res.GetConfirmationSignature()
	if act.MutateCommit != nil {
		act.MutateCommit(&pk, &sig)
	}
	return pk, sig, nil
}

func (s *RouteSender) Abort(_ context.Context, recipient *core.Endpoint, account string) error {
	m := &Msg{Kind: "abort", From: s.from.ID, To: recipient.ID, Account: account}
	to, _, err := s.deliver(m)
	if err != nil {
		return err
	}
	return Safely(func() error {
		_, err := to.Stack.ReceiverH.Abort(PeerCtx(s.from.Name), &pb.AbortRequest{Account: m.Account})
		return err
	})
}

func (s *RouteSender) SendContribution(_ context.Context, recipient *core.Endpoint, account string, distributionSecret bls.SecretKey, verificationVector []bls.PublicKey) (bls.SecretKey, []bls.PublicKey, error) {
	m := &Msg{Kind: "contribute", From: s.from.ID, To: recipient.ID, Account: account, Secret: distributionSecret.Serialize()}
	for _, k := range verificationVector {
		m.VVec = append(m.VVec, k.Serialize())
	}
	to, act, err := s.deliver(m)
	if err != nil {
		return bls.SecretKey{}, nil, err
	}
	do := func() (res *pb.ContributeResponse, err error) {
		err = Safely(func() error {
			var err error
			res, err = to.Stack.ReceiverH.Contribute(PeerCtx(s.from.Name), &pb.ContributeRequest{Account: m.Account, Secret: m.Secret, VerificationVector: m.VVec})
			return err
		})
		return res, err
	}
	res, err := do()
	if act.Duplicate && err == nil {
		res, err = do()
	}
	var rs []byte
	var rv [][]byte
	if err == nil {
		rs, rv = res.GetSecret(), res.GetVerificationVector()
	}
	if s.c.Observe != nil {
		s.c.Observe(m, rs, rv, err)
	}
	if err != nil {
		return bls.SecretKey{}, nil, err
	}
	if act.ErrorReply {
		return bls.SecretKey{}, nil, errors.New("injected error reply")
	}
	if act.MutateReply != nil {
		act.MutateReply(&rs, &rv)
	}
	var sec bls.SecretKey
	if err := sec.Deserialize(rs); err != nil {
		return bls.SecretKey{}, nil, errors.New("returned invalid secret key")
	}
	vv := make([]bls.PublicKey, len(rv))
	for i, k := range rv {
		if err := vv[i].Deserialize(k); err != nil {
			return bls.SecretKey{}, nil, errors.New("returned invalid verification vector")
		}
	}
	return sec, vv, nil
}
