package rig

import (
	"context"

	"github.com/attestantio/dirk/services/fetcher"
	"github.com/google/uuid"
	e2types "github.com/wealdtech/go-eth2-types/v2"
	e2wtypes "github.com/wealdtech/go-eth2-wallet-types/v2"
)

// Probes are the observation / fault-injection callbacks of the fetcher and account interposers.
// Set them before any concurrent phase; nil callbacks are skipped.
type Probes struct {
	// Fetch is called before every fetcher call (kind is "wallet", "account", "accountbykey", "accounts").
	// A non-nil error is returned to the caller instead of invoking the real fetcher.
	Fetch func(kind string, arg []byte) error
	// IsUnlocked may override the result of AccountLocker.IsUnlocked: handled=true uses (val, err).
	IsUnlocked func(pub [48]byte) (handled bool, val bool, err error)
	// BeforeSign is called at entry to Sign; a non-nil error makes Sign fail without signing.
	BeforeSign func(pub [48]byte, root []byte) error
	// AfterSign is called with the signature produced by the real account.
	AfterSign func(pub [48]byte, root []byte, sig []byte)
}

// MonFetcher interposes on a fetcher.Service and wraps every account it hands out.
type MonFetcher struct {
	fetcher.Service // embedded (nil is fine) so that methods added to the interface later do not break the build
	Inner           fetcher.Service
	Probes          *Probes
}

var _ fetcher.Service = (*MonFetcher)(nil)

func (m *MonFetcher) FetchWallet(ctx context.Context, path string) (e2wtypes.Wallet, error) {
	if m.Probes.Fetch != nil {
		if err := m.Probes.Fetch("wallet", []byte(path)); err != nil {
			return nil, err
		}
	}
	return m.Inner.FetchWallet(ctx, path)
}

func (m *MonFetcher) FetchAccount(ctx context.Context, path string) (e2wtypes.Wallet, e2wtypes.Account, error) {
	if m.Probes.Fetch != nil {
		if err := m.Probes.Fetch("account", []byte(path)); err != nil {
			return nil, nil, err
		}
	}
	w, a, err := m.Inner.FetchAccount(ctx, path)
	if err != nil {
		return nil, nil, err
	}
	return w, m.wrap(a), nil
}

func (m *MonFetcher) FetchAccountByKey(ctx context.Context, pubKey []byte) (e2wtypes.Wallet, e2wtypes.Account, error) {
	if m.Probes.Fetch != nil {
		if err := m.Probes.Fetch("accountbykey", pubKey); err != nil {
			return nil, nil, err
		}
	}
	w, a, err := m.Inner.FetchAccountByKey(ctx, pubKey)
	if err != nil {
		return nil, nil, err
	}
	return w, m.wrap(a), nil
}

func (m *MonFetcher) FetchAccounts(ctx context.Context, path string) (map[string]e2wtypes.Account, error) {
	if m.Probes.Fetch != nil {
		if err := m.Probes.Fetch("accounts", []byte(path)); err != nil {
			return nil, err
		}
	}
	as, err := m.Inner.FetchAccounts(ctx, path)
	if err != nil {
		return nil, err
	}
	res := make(map[string]e2wtypes.Account, len(as))
	for k, a := range as {
		res[k] = m.wrap(a)
	}
	return res, nil
}

func (m *MonFetcher) AddAccount(ctx context.Context, wallet e2wtypes.Wallet, account e2wtypes.Account) error {
	return m.Inner.AddAccount(ctx, wallet, account)
}

func (m *MonFetcher) wrap(a e2wtypes.Account) e2wtypes.Account {
	var pub [48]byte
	copy(pub[:], a.PublicKey().Marshal())
	base := &MonAccount{inner: a, probes: m.Probes, pub: pub}
	if _, isDist := a.(e2wtypes.DistributedAccount); isDist {
		return &MonDistAccount{MonAccount: base}
	}
	return base
}

// MonAccount wraps an account, forwarding everything and calling the probes around Sign and IsUnlocked.
type MonAccount struct {
	inner  e2wtypes.Account
	probes *Probes
	pub    [48]byte
}

func (a *MonAccount) Inner() e2wtypes.Account      { return a.inner }
func (a *MonAccount) ID() uuid.UUID                { return a.inner.ID() }
func (a *MonAccount) Name() string                 { return a.inner.Name() }
func (a *MonAccount) PublicKey() e2types.PublicKey { return a.inner.PublicKey() }
func (a *MonAccount) Wallet() e2wtypes.Wallet {
	if wp, ok := a.inner.(e2wtypes.AccountWalletProvider); ok {
		return wp.Wallet()
	}
	return nil
}

func (a *MonAccount) Lock(ctx context.Context) error {
	if l, ok := a.inner.(e2wtypes.AccountLocker); ok {
		return l.Lock(ctx)
	}
	return nil
}

func (a *MonAccount) Unlock(ctx context.Context, passphrase []byte) error {
	if l, ok := a.inner.(e2wtypes.AccountLocker); ok {
		return l.Unlock(ctx, passphrase)
	}
	return nil
}

func (a *MonAccount) IsUnlocked(ctx context.Context) (bool, error) {
	if a.probes.IsUnlocked != nil {
		if handled, v, err := a.probes.IsUnlocked(a.pub); handled {
			return v, err
		}
	}
	if l, ok := a.inner.(e2wtypes.AccountLocker); ok {
		return l.IsUnlocked(ctx)
	}
	return true, nil
}

func (a *MonAccount) Sign(ctx context.Context, data []byte) (e2types.Signature, error) {
	if a.probes.BeforeSign != nil {
		if err := a.probes.BeforeSign(a.pub, data); err != nil {
			return nil, err
		}
	}
	sig, err := a.inner.(e2wtypes.AccountSigner).Sign(ctx, data)
	if err != nil {
		return nil, err
	}
	if a.probes.AfterSign != nil {
		a.probes.AfterSign(a.pub, data, sig.Marshal())
	}
	return sig, nil
}

// MonDistAccount adds the distributed-account accessors.
type MonDistAccount struct {
	*MonAccount
}

func (a *MonDistAccount) CompositePublicKey() e2types.PublicKey {
	return a.inner.(e2wtypes.AccountCompositePublicKeyProvider).CompositePublicKey()
}
func (a *MonDistAccount) SigningThreshold() uint32 {
	return a.inner.(e2wtypes.AccountSigningThresholdProvider).SigningThreshold()
}
func (a *MonDistAccount) VerificationVector() []e2types.PublicKey {
	return a.inner.(e2wtypes.AccountVerificationVectorProvider).VerificationVector()
}
func (a *MonDistAccount) Participants() map[uint64]string {
	return a.inner.(e2wtypes.AccountParticipantsProvider).Participants()
}
