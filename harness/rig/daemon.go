package rig

import (
	"context"
	"crypto/ecdsa"
	"crypto/elliptic"
	"crypto/rand"
	"crypto/tls"
	"crypto/x509"
	"crypto/x509/pkix"
	"encoding/pem"
	"fmt"
	"math/big"
	"net"
	"os"
	"os/exec"
	"path/filepath"
	"sort"
	"strings"
	"sync"
	"sync/atomic"
	"syscall"
	"time"

	distributed "github.com/wealdtech/go-eth2-wallet-distributed"
	keystorev4 "github.com/wealdtech/go-eth2-wallet-encryptor-keystorev4"
	nd "github.com/wealdtech/go-eth2-wallet-nd/v2"
	filesystem "github.com/wealdtech/go-eth2-wallet-store-filesystem"
	e2wtypes "github.com/wealdtech/go-eth2-wallet-types/v2"
	"google.golang.org/grpc"
	"google.golang.org/grpc/credentials"
	"google.golang.org/grpc/credentials/insecure"
)

// CA is a certificate authority generated at run time.
type CA struct {
	Cert    *x509.Certificate
	Key     *ecdsa.PrivateKey
	CertPEM []byte
}

// Cert is an issued certificate with its key.
type Cert struct {
	CertPEM, KeyPEM []byte
	TLS             tls.Certificate
}

func serial() *big.Int {
	n, _ := rand.Int(rand.Reader, new(big.Int).Lsh(big.NewInt(1), 100))
	return n
}

// NewCA creates a self-signed authority.
func NewCA(name string) (*CA, error) {
	key, err := ecdsa.GenerateKey(elliptic.P256(), rand.Reader)
	if err != nil {
		return nil, err
	}
	tmpl := &x509.Certificate{SerialNumber: serial(), Subject: pkix.Name{CommonName: name}, NotBefore: time.Now().Add(-time.Hour), NotAfter: time.Now().Add(24 * time.Hour),
		IsCA: true, KeyUsage: x509.KeyUsageCertSign | x509.KeyUsageDigitalSignature, BasicConstraintsValid: true}
	der, err := x509.CreateCertificate(rand.Reader, tmpl, tmpl, &key.PublicKey, key)
	if err != nil {
		return nil, err
	}
	cert, _ := x509.ParseCertificate(der)
	return &CA{Cert: cert, Key: key, CertPEM: pem.EncodeToMemory(&pem.Block{Type: "CERTIFICATE", Bytes: der})}, nil
}

// CertOpts describes a certificate to issue.
type CertOpts struct {
	CN         string
	DNS        []string
	IPs        []string
	NotBefore  time.Time
	NotAfter   time.Time
	ServerOnly bool // ExtKeyUsage server auth only
	SelfSigned bool
}

// Issue issues a leaf certificate (self-signed when ca is nil or opts.SelfSigned).
func (ca *CA) Issue(o CertOpts) (*Cert, error) {
	key, err := ecdsa.GenerateKey(elliptic.P256(), rand.Reader)
	if err != nil {
		return nil, err
	}
	if o.NotBefore.IsZero() {
		o.NotBefore = time.Now().Add(-time.Hour)
	}
	if o.NotAfter.IsZero() {
		o.NotAfter = time.Now().Add(24 * time.Hour)
	}
	tmpl := &x509.Certificate{SerialNumber: serial(), Subject: pkix.Name{CommonName: o.CN}, NotBefore: o.NotBefore, NotAfter: o.NotAfter,
		KeyUsage: x509.KeyUsageDigitalSignature, ExtKeyUsage: []x509.ExtKeyUsage{x509.ExtKeyUsageServerAuth, x509.ExtKeyUsageClientAuth}, DNSNames: o.DNS}
	if o.ServerOnly {
		tmpl.ExtKeyUsage = []x509.ExtKeyUsage{x509.ExtKeyUsageServerAuth}
	}
	for _, ip := range o.IPs {
		tmpl.IPAddresses = append(tmpl.IPAddresses, net.ParseIP(ip))
	}
	parent, signer := tmpl, key
	if ca != nil && !o.SelfSigned {
		parent, signer = ca.Cert, ca.Key
	}
	der, err := x509.CreateCertificate(rand.Reader, tmpl, parent, &key.PublicKey, signer)
	if err != nil {
		return nil, err
	}
	kb, _ := x509.MarshalECPrivateKey(key)
	c := &Cert{CertPEM: pem.EncodeToMemory(&pem.Block{Type: "CERTIFICATE", Bytes: der}), KeyPEM: pem.EncodeToMemory(&pem.Block{Type: "EC PRIVATE KEY", Bytes: kb})}
	c.TLS, err = tls.X509KeyPair(c.CertPEM, c.KeyPEM)
	return c, err
}

// DaemonOpts configures one real dirk daemon.
type DaemonOpts struct {
	Race      bool // run the daemon binary built with -race (see RaceDirkBin)
	Dir       string
	ID        uint64
	IP        string // 127.0.0.x
	Port      int
	CA        *CA  // authority for server and client certificates
	NoCAInCfg bool // leave certificates.ca-cert out of the configuration
	// ServerChainExtra is appended to the server certificate file (a "full-chain" bundle): certificates that travel
	// with the server's own must never become authorities for client certificates.
	ServerChainExtra []byte
	Peers            map[uint64]string
	Permissions      map[string]map[string][]string // client -> path -> operations
	AdminIPs         []string
	NDWallets        map[string][]string // wallet -> accounts (keys DetKey("ndw-<wallet>", i), passphrase "pass")
	DistWallets      []string
	GenTimeout       string
	LogLevel         string
	Env              []string
	Wrapper          []string // command prefix, e.g. {"prlimit", "--as=..."}
}

// Daemon is a running dirk child process.
type Daemon struct {
	Opts    DaemonOpts
	Cmd     *exec.Cmd
	Addr    string
	Server  *Cert
	LogPath string
	done    chan error
}

// PrepareDaemon writes the base directory (configuration, wallets, certificates).
func PrepareDaemon(o DaemonOpts) (*Daemon, error) {
	Init()
	if err := os.MkdirAll(o.Dir, 0o755); err != nil {
		return nil, err
	}
	server, err := o.CA.Issue(CertOpts{CN: o.IP, IPs: []string{o.IP}})
	if err != nil {
		return nil, err
	}
	write := func(name string, data []byte) string {
		p := filepath.Join(o.Dir, name)
		_ = os.WriteFile(p, data, 0o600)
		return p
	}
	crt, key, cacrt := write("server.crt", append(append([]byte{}, server.CertPEM...), o.ServerChainExtra...)), write("server.key", server.KeyPEM), write("ca.crt", o.CA.CertPEM)
	walletDir := filepath.Join(o.Dir, "wallets")
	if _, err := os.Stat(walletDir); err != nil {
		store := filesystem.New(filesystem.WithLocation(walletDir))
		enc := keystorev4.New()
		ctx := context.Background()
		names := make([]string, 0, len(o.NDWallets))
		for w := range o.NDWallets {
			names = append(names, w)
		}
		sort.Strings(names)
		// Wallets are filled in parallel (creating a keystore account costs ~57 ms).
		var wg sync.WaitGroup
		errs := make(chan error, len(names))
		for _, wname := range names {
			w, err := nd.CreateWallet(ctx, wname, store, enc)
			if err != nil {
				return nil, err
			}
			wg.Add(1)
			go func(wname string, w e2wtypes.Wallet) {
				defer wg.Done()
				if err := w.(e2wtypes.WalletLocker).Unlock(ctx, nil); err != nil {
					errs <- err
					return
				}
				for i, a := range o.NDWallets[wname] {
					if _, err := w.(e2wtypes.WalletAccountImporter).ImportAccount(ctx, a, DetKey("ndw-"+wname, i).Priv.Marshal(), []byte("pass")); err != nil {
						errs <- err
						return
					}
				}
				_ = w.(e2wtypes.WalletLocker).Lock(ctx)
			}(wname, w)
		}
		wg.Wait()
		select {
		case err := <-errs:
			return nil, err
		default:
		}
		for _, wname := range o.DistWallets {
			if _, err := distributed.CreateWallet(ctx, wname, store, enc); err != nil {
				return nil, err
			}
		}
	}
	var b strings.Builder
	lvl := o.LogLevel
	if lvl == "" {
		lvl = "warn"
	}
	fmt.Fprintf(&b, "log-level: %s\nserver:\n  id: %d\n  name: %s\n  listen-address: %s:%d\n", lvl, o.ID, o.IP, o.IP, o.Port)
	if len(o.AdminIPs) > 0 {
		fmt.Fprintf(&b, "  rules:\n    admin-ips: [ %s ]\n", strings.Join(o.AdminIPs, ", "))
	}
	fmt.Fprintf(&b, "certificates:\n  server-cert: file://%s\n  server-key: file://%s\n", crt, key)
	if !o.NoCAInCfg {
		fmt.Fprintf(&b, "  ca-cert: file://%s\n", cacrt)
	}
	fmt.Fprintf(&b, "storage-path: %s\nstores:\n- name: Local\n  type: filesystem\n  location: %s\n", filepath.Join(o.Dir, "storage"), walletDir)
	fmt.Fprintf(&b, "unlocker:\n  wallet-passphrases: [ pass ]\n  account-passphrases: [ pass ]\nprocess:\n  generation-passphrase: pass\n")
	if o.GenTimeout != "" {
		fmt.Fprintf(&b, "  generation-timeout: %s\n", o.GenTimeout)
	}
	fmt.Fprintf(&b, "peers:\n")
	ids := make([]uint64, 0, len(o.Peers))
	for id := range o.Peers {
		ids = append(ids, id)
	}
	sort.Slice(ids, func(i, j int) bool { return ids[i] < ids[j] })
	for _, id := range ids {
		fmt.Fprintf(&b, "  %d: %s\n", id, o.Peers[id])
	}
	fmt.Fprintf(&b, "permissions:\n")
	clients := make([]string, 0, len(o.Permissions))
	for c := range o.Permissions {
		clients = append(clients, c)
	}
	sort.Strings(clients)
	for _, c := range clients {
		fmt.Fprintf(&b, "  %q:\n", c)
		for path, ops := range o.Permissions[c] {
			fmt.Fprintf(&b, "    %q: [ %s ]\n", path, strings.Join(ops, ", "))
		}
	}
	write("dirk.yml", []byte(b.String()))
	return &Daemon{Opts: o, Addr: fmt.Sprintf("%s:%d", o.IP, o.Port), Server: server, LogPath: filepath.Join(o.Dir, "daemon.log")}, nil
}

// Start launches the daemon and waits until it accepts TCP connections.
func (d *Daemon) Start() error {
	bin := DirkBin()
	env := d.Opts.Env
	if d.Opts.Race {
		// The daemon built with the race detector; reports go to <dir>/race.<pid> and do not stop it.
		bin = RaceDirkBin()
		env = append(append([]string{}, env...), "GORACE=halt_on_error=0 log_path="+filepath.Join(d.Opts.Dir, "race"))
	}
	args := append(append([]string{}, d.Opts.Wrapper...), bin, "--base-dir", d.Opts.Dir)
	d.Cmd = exec.Command(args[0], args[1:]...)
	d.Cmd.Env = append(os.Environ(), env...)
	lf, err := newCappedLog(d.LogPath, 64<<20)
	if err != nil {
		return err
	}
	d.Cmd.Stdout, d.Cmd.Stderr = lf, lf
	if err := d.Cmd.Start(); err != nil {
		return err
	}
	d.done = make(chan error, 1)
	go func() { d.done <- d.Cmd.Wait(); lf.Close() }()
	deadline := time.Now().Add(20 * time.Second)
	for time.Now().Before(deadline) {
		select {
		case err := <-d.done:
			d.done <- err
			return fmt.Errorf("daemon exited during start-up: %v (see %s)", err, d.LogPath)
		default:
		}
		conn, err := net.DialTimeout("tcp", d.Addr, 200*time.Millisecond)
		if err == nil {
			conn.Close()
			return nil
		}
		time.Sleep(20 * time.Millisecond)
	}
	return fmt.Errorf("daemon did not start listening on %s", d.Addr)
}

// Alive reports whether the process is still running.
func (d *Daemon) Alive() bool {
	select {
	case err := <-d.done:
		d.done <- err
		return false
	default:
		return true
	}
}

// Kill sends SIGKILL and waits.
func (d *Daemon) Kill() {
	if d.Cmd == nil || d.Cmd.Process == nil {
		return
	}
	_ = d.Cmd.Process.Signal(syscall.SIGKILL)
	select {
	case <-d.done:
	case <-time.After(5 * time.Second):
	}
}

// Stop sends SIGTERM, waits for a clean exit (Dirk sleeps 2 s on shutdown) and falls back to SIGKILL.
func (d *Daemon) Stop() {
	if d.Cmd == nil || d.Cmd.Process == nil {
		return
	}
	_ = d.Cmd.Process.Signal(syscall.SIGTERM)
	select {
	case <-d.done:
	case <-time.After(6 * time.Second):
		d.Kill()
	}
}

// LogTail returns the end of the daemon's log.
func (d *Daemon) LogTail(n int) string {
	b := fileTail(d.LogPath, n)
	if len(b) < n {
		b = append(fileTail(d.LogPath+".1", n-len(b)), b...)
	}
	return string(b)
}

func fileTail(path string, n int) []byte {
	f, err := os.Open(path)
	if err != nil {
		return nil
	}
	defer f.Close()
	st, err := f.Stat()
	if err != nil {
		return nil
	}
	off := st.Size() - int64(n)
	if off < 0 {
		off = 0
	}
	b := make([]byte, st.Size()-off)
	m, _ := f.ReadAt(b, off)
	return b[:m]
}

// cappedLog is the daemon's log file: a daemon at trace level logs every hostile request in full, which filled the
// disk (133 GB) in a long run.  When the file exceeds the cap it becomes <path>.1 (replacing the previous one).
type cappedLog struct {
	mu   sync.Mutex
	path string
	max  int64
	n    int64
	f    *os.File
}

func newCappedLog(path string, max int64) (*cappedLog, error) {
	f, err := os.OpenFile(path, os.O_CREATE|os.O_WRONLY|os.O_APPEND, 0o644)
	if err != nil {
		return nil, err
	}
	st, _ := f.Stat()
	return &cappedLog{path: path, max: max, f: f, n: st.Size()}, nil
}

func (c *cappedLog) Write(p []byte) (int, error) {
	c.mu.Lock()
	defer c.mu.Unlock()
	if c.n+int64(len(p)) > c.max && c.n > 0 {
		_ = c.f.Close()
		_ = os.Rename(c.path, c.path+".1")
		f, err := os.OpenFile(c.path, os.O_CREATE|os.O_WRONLY|os.O_TRUNC, 0o644)
		if err != nil {
			return 0, err
		}
		c.f, c.n = f, 0
	}
	n, err := c.f.Write(p)
	c.n += int64(n)
	return n, err
}

func (c *cappedLog) Close() error {
	c.mu.Lock()
	defer c.mu.Unlock()
	return c.f.Close()
}

// ClientTLS builds a client TLS configuration trusting the CA and presenting the certificates given.
func ClientTLS(ca *CA, certs ...tls.Certificate) *tls.Config {
	pool := x509.NewCertPool()
	pool.AppendCertsFromPEM(ca.CertPEM)
	cfg := &tls.Config{RootCAs: pool, MinVersion: tls.VersionTLS13}
	if len(certs) > 0 {
		// Force-send the certificate: Go's client would silently withhold one whose issuer is not among the
		// authorities the server names in its request, turning a hostile caller into a certificate-less one.
		c := certs[0]
		cfg.GetClientCertificate = func(*tls.CertificateRequestInfo) (*tls.Certificate, error) { return &c, nil }
	}
	return cfg
}

// Dial opens a gRPC connection; cfg == nil means plaintext.  srcIP optionally binds the local address.
func Dial(addr string, cfg *tls.Config, srcIP string) (*grpc.ClientConn, error) {
	opts := []grpc.DialOption{}
	if cfg == nil {
		opts = append(opts, grpc.WithTransportCredentials(insecure.NewCredentials()))
	} else {
		opts = append(opts, grpc.WithTransportCredentials(credentials.NewTLS(cfg)))
	}
	if srcIP != "" {
		opts = append(opts, grpc.WithContextDialer(func(ctx context.Context, a string) (net.Conn, error) {
			d := net.Dialer{LocalAddr: &net.TCPAddr{IP: net.ParseIP(srcIP)}}
			return d.DialContext(ctx, "tcp", a)
		}))
	}
	return grpc.NewClient(addr, opts...)
}

var portSeq atomic.Uint32

type lingerConn struct{ net.Conn }

// Close resets the connection (no TIME_WAIT), so that the same local port can be used again at once.
func (c lingerConn) Close() error {
	if t, ok := c.Conn.(*net.TCPConn); ok {
		_ = t.SetLinger(0)
	}
	return c.Conn.Close()
}

// DialFromPort opens a gRPC connection whose TCP connection originates from the given local address and port.
func DialFromPort(addr string, cfg *tls.Config, srcIP string, srcPort int) (*grpc.ClientConn, error) {
	return grpc.NewClient(addr, grpc.WithTransportCredentials(credentials.NewTLS(cfg)),
		grpc.WithContextDialer(func(ctx context.Context, a string) (net.Conn, error) {
			d := net.Dialer{LocalAddr: &net.TCPAddr{IP: net.ParseIP(srcIP), Port: srcPort}, Control: func(_, _ string, c syscall.RawConn) error {
				var serr error
				_ = c.Control(func(fd uintptr) { serr = syscall.SetsockoptInt(int(fd), syscall.SOL_SOCKET, syscall.SO_REUSEADDR, 1) })
				return serr
			}}
			conn, err := d.DialContext(ctx, "tcp", a)
			if err != nil {
				return nil, err
			}
			return lingerConn{conn}, nil
		}))
}

// FreePort returns a port that was free on the address a moment ago.  Ports are taken from below the
// ephemeral range (so that outgoing connections of other processes cannot grab them in the meantime) and
// spread by process id (so that concurrent runs of the harness do not pick the same ones).
func FreePort(ip string) int {
	for try := 0; try < 200; try++ {
		n := portSeq.Add(1)
		port := 20000 + int((uint32(os.Getpid())*131+n*17+uint32(try)*977)%11000)
		l, err := net.Listen("tcp", fmt.Sprintf("%s:%d", ip, port))
		if err != nil {
			continue
		}
		l.Close()
		return port
	}
	l, err := net.Listen("tcp", ip+":0")
	if err != nil {
		return 0
	}
	defer l.Close()
	return l.Addr().(*net.TCPAddr).Port
}
